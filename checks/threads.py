"""Concurrent exports (the schedules part of C05, also used by C13): TLC model-checks every
interleaving of the plans (MC_Export.tla); the same plans run on real OS threads with seeded
pauses at the hook points (long pauses inside the critical section are disabled-action probes);
the recorded event traces are validated against Export.tla by TLC (Trace_ExportThreads.tla) and
the final files are judged (well-formed, byte-identical for identical plans)."""
import json
import os
import random
import subprocess
import time

import exportlib
import textabs
import vlib
from vlib import ToolError, log

IN_SECTION = ["Lock", "Create_write", "Reg_insert_new", "Open_read", "Merge_seek_write", "Reg_insert", "Unlock"]
ALL_POINTS = ["Lock_wait"] + IN_SECTION + ["Skip_present"]


def plan_configs(u, tier):
    c = lambda e, t: u.call(e, t, "default")
    calls = [c("export", "Alpha"), c("export", "Al1"), c("export", "Al<i32>"), c("export", "AlphaBeta"), c("export", "Beta"),
             c("export_all", "AlphaBeta"), c("export_all", "Al1"), c("export", "alpha2"), c("export_all", "Pair"), c("export", "Gamma")]
    cfgs = [
        [[1], [2]], [[1, 2], [2, 1]], [[4, 5], [3, 1]], [[6], [7]], [[6, 1], [9]], [[10, 8], [5, 3]],
    ]
    if tier == "thorough":
        cfgs += [[[1], [2], [3]], [[4], [5], [1]], [[6], [7], [9]], [[1, 2], [3, 4], [5, 8]], [[9, 10], [6, 3], [7, 1]]]
    return calls, cfgs


def section_orders(counts, limit, rnd):
    """every order in which the threads can enter their critical sections (thread t enters counts[t] of them, in
    its own program order): the distinct sequences over thread ids; sampled when there are more than `limit`"""
    total = sum(counts)
    import math
    n = math.factorial(total)
    for c in counts:
        n //= math.factorial(c)
    out = []
    if n <= limit:
        def rec(left, acc):
            if len(acc) == total:
                out.append(list(acc))
                return
            for t, c in enumerate(left):
                if c:
                    left[t] -= 1
                    acc.append(t + 1)
                    rec(left, acc)
                    acc.pop()
                    left[t] += 1
        rec(list(counts), [])
        return out, n
    seen = set()
    while len(out) < limit:
        seq = [t + 1 for t, c in enumerate(counts) for _ in range(c)]
        rnd.shuffle(seq)
        if tuple(seq) not in seen:
            seen.add(tuple(seq))
            out.append(seq)
    return out, n


def run(tier, verdicts, stats, seed):
    rnd = random.Random(seed)
    u = exportlib.Universe()
    try:
        calls, cfgs = plan_configs(u, tier)
        f0, f = exportlib.free_alphabet(calls)
        const = os.path.join(vlib.TMP, "thr-const-%d.json" % os.getpid())
        # PREDICT: all interleavings of each plan configuration
        for ci, plans in enumerate(cfgs):
            u.write_constants(const, calls, f0, f, "empty")
            d = json.load(open(const))
            d["plans"] = plans
            json.dump(d, open(const, "w"))
            r = vlib.run_tlc("MC_Export", "MC_Export.cfg", workers=8, env={"VERIF_UNIVERSE": const}, timeout=1500,
                             metatag="mcx%d" % ci, coverage=(ci == 0))
            if r.violated:
                verdicts.note("model verdict: TLC reports %s violated for plans %s" % (r.violated, plans))
                stats.setdefault("model_violations", []).append({"plans": plans, "property": r.violated})
            else:
                vlib.tlc_must_succeed(r, "MC_Export plans %s" % plans)
            stats["states"] = stats.get("states", 0) + r.distinct
            stats["transitions"] = stats.get("transitions", 0) + r.generated
            if r.coverage:
                stats["action_coverage"] = r.coverage
        # runs: each configuration with several pause plans
        nseeds = 6 if tier == "quick" else 30
        runs = []
        for ci, plans in enumerate(cfgs):
            nthreads = len(plans)
            for s in range(nseeds):
                pauses = [{"thread": rnd.randint(1, nthreads), "point": rnd.choice(ALL_POINTS), "nth": rnd.randint(1, 2), "ms": rnd.randint(1, 6)}
                          for _ in range(rnd.randint(0, 4))]
                runs.append({"cfg": ci, "kind": "perturbed", "pauses": pauses})
            # probes: hold each in-section point of one thread for a long time; the others must stay out
            for pt in IN_SECTION:
                for th in range(1, nthreads + 1):
                    if tier == "quick" and (ci + th + len(pt)) % 3 != 0:
                        continue
                    runs.append({"cfg": ci, "kind": "probe", "pauses": [{"thread": th, "point": pt, "nth": 1, "ms": 60}]})
            # exact schedules: one critical section per type of a call's closure (already exported types are skipped
            # inside the section); every order of the threads' sections (sampled beyond the limit)
            import exportchecks
            counts = [sum(len(exportchecks.closure(u, calls[i - 1])) for i in p) for p in plans]
            orders, norders = section_orders(counts, 40 if tier == "quick" else 400, rnd)
            stats["thread_schedules_total"] = stats.get("thread_schedules_total", 0) + norders
            for od in orders:
                runs.append({"cfg": ci, "kind": "schedule", "pauses": [], "order": od})
        recs = []
        for rid, r_ in enumerate(runs):
            plans = cfgs[r_["cfg"]]
            hp = [[dict(op="call", entry=calls[i - 1]["entry"], ty=calls[i - 1]["ty"], env=None, dir=calls[i - 1]["dir_s"], env_skip=True)
                   for i in p] for p in plans]
            recs.append({"rid": rid, "plans": hp, "pauses": r_["pauses"], "order": r_.get("order", [])})
        rpath = os.path.join(vlib.TMP, "thr-runs.ndjson")
        opath = os.path.join(vlib.TMP, "thr-obs.ndjson")
        bpath = os.path.join(vlib.TMP, "thr-blobs.json")
        vlib.write_ndjson(rpath, recs)
        p = subprocess.run([u.rt, "threads", u.sandbox, rpath, opath, bpath])
        if p.returncode != 0:
            raise ToolError("rt threads failed (rc=%s)" % p.returncode)
        obs = {o["rid"]: o for o in map(json.loads, open(opath))}
        blobs = json.load(open(bpath))
        if len(obs) != len(runs):
            raise ToolError("rt threads returned %d of %d runs" % (len(obs), len(runs)))
        # ADJUDICATE
        btab = {"<dir>": {"ok": False, "notice": False, "nl_end": False, "imports": [], "blocks": []}}
        for bid, text in blobs.items():
            a = textabs.abstract(text, u.note, u.tab, register=False)
            btab[bid] = ({"ok": True, "notice": a["notice"], "nl_end": a["nl_end"],
                          "imports": [{"spec": i["spec"], "names": i["names"]} for i in a["imports"]],
                          "blocks": [b["id"] for b in a["blocks"]]} if a["ok"] else
                         {"ok": False, "notice": False, "nl_end": text.endswith("\n"), "imports": [], "blocks": []})
        paths, trees, tree_ids, trecs = {}, {}, {}, []
        for rid, r_ in enumerate(runs):
            o = obs[rid]
            key = json.dumps(o["tree"], sort_keys=True)
            if key not in tree_ids:
                tid = "t%d" % len(trees)
                tree_ids[key] = tid
                ent = []
                for pth, b in sorted(o["tree"].items()):
                    paths.setdefault(pth, [list(c) for c in u.model_root] + exportlib.cs(pth))
                    ent.append({"path": pth, "blob": b})
                trees[tid] = ent
            trecs.append({"rid": rid, "plans": cfgs[r_["cfg"]], "events": o["events"], "poisoned": o["poisoned"], "tree": tree_ids[key]})
        u.write_constants(const, calls, f0, f, "empty")
        tp = os.path.join(vlib.TMP, "thr-trace.ndjson")
        vlib.write_ndjson(tp, trecs)
        files = {"VERIF_BLOBS": btab, "VERIF_PATHS": paths, "VERIF_TREES": trees}
        env = {"VERIF_UNIVERSE": const, "VERIF_TRACE": tp}
        for k, v in files.items():
            fp = os.path.join(vlib.TMP, "thr-%s.json" % k)
            json.dump(v, open(fp, "w"))
            env[k] = fp
        a = vlib.run_tlc("Trace_ExportThreads", "Trace_ExportThreads.cfg", workers=8, env=env, timeout=1500, tags=("OUT",), metatag="tet")
        vlib.tlc_must_succeed(a, "Trace_ExportThreads")
        outs = {o["rid"]: o for o in a.payloads("OUT")}
        if len(outs) != len(runs):
            raise ToolError("thread trace validation judged %d of %d runs" % (len(outs), len(runs)))
        by_cfg = {}
        n_events = 0
        for rid, r_ in enumerate(runs):
            o, ob = outs[rid], obs[rid]
            n_events += len(ob["events"])
            sha = exportlib.tree_sha(ob["tree"])
            desc = {"prop": verdicts.prop, "slice": "threads", "plans": json.dumps(cfgs[r_["cfg"]]), "kind": r_["kind"],
                    "pauses": json.dumps(r_["pauses"])}
            detail = {"events": ob["events"], "tree": ob["tree"], "files": {b: blobs.get(b) for b in ob["tree"].values() if b in blobs},
                      "calls": [exportlib_call_name(c) for c in calls]}
            if r_["kind"] == "schedule":
                desc["order"] = json.dumps(r_["order"])
                locks = [e["thread"] for e in ob["events"] if e["ev"] == "Lock"]
                if ob.get("stuck") or locks != r_["order"]:
                    verdicts.fail(dict(desc, tag="schedule_not_followed", sections_entered=json.dumps(locks)), detail)
                    continue
            if not o["accepted"]:
                ev = ob["events"][o["rejected_at"] - 1] if 0 < o["rejected_at"] <= len(ob["events"]) else None
                verdicts.fail(dict(desc, tag="trace_rejected", event=json.dumps(ev)), detail)
            elif not o["quiescent"]:
                verdicts.fail(dict(desc, tag="not_quiescent"), detail)
            elif not o["wellformed"]:
                verdicts.fail(dict(desc, tag="C05w_malformed"), detail)
            else:
                prev = by_cfg.setdefault(r_["cfg"], sha)
                if prev != sha:
                    verdicts.fail(dict(desc, tag="confluence"), detail)
            if not o["pred_equal"]:
                stats["thread_drift"] = stats.get("thread_drift", 0) + 1
        stats["thread_runs"] = len(runs)
        stats["thread_events_validated"] = n_events
        stats["thread_probe_runs"] = sum(1 for r_ in runs if r_["kind"] == "probe")
        stats["thread_schedule_runs"] = sum(1 for r_ in runs if r_["kind"] == "schedule")
        stats["thread_plan_configs"] = len(cfgs)
        stats["thread_sample"] = {"plans": [[exportlib_call_name(calls[i - 1]) for i in p] for p in cfgs[2]],
                                  "events": [(e["thread"], e["ev"], e.get("ident", e.get("ret", "")))
                                             for e in obs[[i for i, r_ in enumerate(runs) if r_["cfg"] == 2][0]]["events"][:24]]}
        for f_ in [rpath, opath, bpath, tp, const] + [env[k] for k in files]:
            if os.path.exists(f_):
                os.remove(f_)
    finally:
        u.cleanup()


def exportlib_call_name(c):
    return "%s(%s)" % (c["entry"], c["ty"])
