"""C09 - rename_all yields the names serde puts on the wire, for every identifier.

PREDICT    MC_Inflection.tla: every legal identifier over a 7-class alphabet up to the length
           bound x 8 rules x {field, variant}; C09/C16 are TLC invariants on the transcriptions.
REPLAY     ts-rs side: the real derive is expanded in-process (macro driver) on structs / enums
           carrying the identifiers, under rename_all, rename_all_fields and a variant's rename_all,
           and the emitted property names / variant literals are read from the expansion;
           serde side: serde_derive's own case.rs (pinned version, from the offline registry) is
           called on the same identifiers (rt case).
ADJUDICATE Trace_Inflection.tla: name_ts = name_serde wherever serde has a name; ts never panics."""
import json
import os
import subprocess
import time

import macrodrv
import vlib
from vlib import ToolError, log

PROP = "C09"
TOK2CH = {"a": "a", "A": "A", "1": "1", "_": "_", "e": "é", "E": "É", "s": "ß", "-": "-", "S": "S"}
CH2TOK = {v: k for k, v in TOK2CH.items()}
RULES = ["lowercase", "UPPERCASE", "camelCase", "snake_case", "PascalCase", "SCREAMING_SNAKE_CASE", "kebab-case", "SCREAMING-KEBAB-CASE"]


def to_str(toks):
    return "".join(TOK2CH[t] for t in toks)


def to_toks(s):
    return [CH2TOK.get(c, "?" + c) for c in s]


def batches(xs, n):
    for i in range(0, len(xs), n):
        yield xs[i:i + n]


def expand_names(ids, rule, shape):
    """-> dict id -> list of tokens | ["PANIC"] for the given carrier shape"""
    out = {}

    def item(group):
        if shape == "field":
            return '#[ts(rename_all = "%s")] struct S { %s }' % (rule, " ".join("%s: u8," % i for i in group))
        if shape == "variant":
            return '#[ts(rename_all = "%s")] enum E { %s }' % (rule, " ".join("%s," % i for i in group))
        if shape == "raw_field":         # the same identifiers written as raw identifiers (serde and ts-rs drop the r#)
            return '#[ts(rename_all = "%s")] struct S { %s }' % (rule, " ".join("r#%s: u8," % i for i in group))
        if shape == "raw_variant":
            return '#[ts(rename_all = "%s")] enum E { %s }' % (rule, " ".join("r#%s," % i for i in group))
        if shape == "tagged_struct_variant":     # the tag value written into a struct variant of an internally tagged enum
            return '#[ts(tag = "t", rename_all = "%s")] enum E { %s }' % (rule, " ".join("%s {}," % i for i in group))
        if shape == "de_only_field":             # a convention for deserialization only: the names serde WRITES stay as they are
            return '#[serde(rename_all(deserialize = "%s"))] struct S { %s }' % (rule, " ".join("%s: u8," % i for i in group))
        if shape == "de_only_variant":
            return '#[serde(rename_all(deserialize = "%s"))] enum E { %s }' % (rule, " ".join("%s," % i for i in group))
        # the convention in serde's spelling, among other entries of the same list (flags without a value, entries
        # ts-rs has no use for) and in a list of its own next to another one
        if shape == "serde_mixed_field":
            return '#[serde(deny_unknown_fields, rename_all = "%s", default)] struct S { %s }' % (rule, " ".join("%s: u8," % i for i in group))
        if shape == "serde_mixed_variant":
            return '#[serde(deny_unknown_fields, rename_all = "%s", bound = "")] enum E { %s }' % (rule, " ".join("%s," % i for i in group))
        if shape == "serde_split_field":
            return '#[serde(deny_unknown_fields)] #[serde(rename_all = "%s")] #[serde(default)] struct S { %s }' % (rule, " ".join("%s: u8," % i for i in group))
        if shape == "serde_split_variant":
            return '#[serde(tag = "t")] #[serde(rename_all = "%s")] enum E { %s }' % (rule, " ".join("%s {}," % i for i in group))
        if shape == "serde_flag_struct_variant":
            return 'enum E { #[serde(skip_deserializing, rename_all = "%s")] V { %s } }' % (rule, " ".join("%s: u8," % i for i in group))
        if shape == "renamed_field":             # an explicit rename is used verbatim, whatever the container's convention
            return '#[ts(rename_all = "%s")] struct S { %s }' % (rule, " ".join('#[ts(rename = "%s")] f%d: u8,' % (i, k) for k, i in enumerate(group)))
        if shape == "renamed_variant":
            return '#[ts(rename_all = "%s")] enum E { %s }' % (rule, " ".join('#[ts(rename = "%s")] V%d,' % (i, k) for k, i in enumerate(group)))
        if shape == "rename_all_fields":
            return '#[ts(rename_all_fields = "%s")] enum E { V { %s } }' % (rule, " ".join("%s: u8," % i for i in group))
        if shape == "variant_rename_all":
            return '#[ts(rename_all_fields = "UPPERCASE")] enum E { #[ts(rename_all = "%s")] V { %s } }' % (rule, " ".join("%s: u8," % i for i in group))
        raise ToolError(shape)

    def names_of(tokens, n):
        names = (macrodrv.tag_values(tokens) if shape in ("tagged_struct_variant", "serde_split_variant") else
                 macrodrv.unit_variant_names(tokens) if shape in ("variant", "raw_variant", "renamed_variant", "de_only_variant", "serde_mixed_variant") else macrodrv.field_names(tokens))
        if len(names) == 2 * n and names[:n] == names[n:]:
            names = names[:n]        # inline() and inline_flattened() carry the same list
        if len(names) != n:
            raise Unreadable("cannot read %d names from the expansion (%d found): %s" % (n, len(names), tokens[:300]))
        return names

    groups = list(batches(ids, 80))
    res = macrodrv.expand([item(g) for g in groups], tag="c09")
    singles = []
    for g, (kind, text) in zip(groups, res):
        if kind == "OK":
            for i, n in zip(g, names_of(text, len(g))):
                out[i] = to_toks(n)
        elif kind == "PANIC":
            singles += g                      # find out which identifier it was
        else:
            raise ToolError("the derive rejected a plain %s carrier: %s %s" % (shape, kind, text[:300]))
    if singles:
        res = macrodrv.expand([item([i]) for i in singles], tag="c09s")
        for i, (kind, text) in zip(singles, res):
            if kind == "OK":
                out[i] = to_toks(names_of(text, 1)[0])
            elif kind == "PANIC":
                out[i] = ["PANIC"]
            else:
                raise ToolError("the derive rejected a plain %s carrier: %s %s" % (shape, kind, text[:300]))
    return out


def expand_names_seq(ids, rule, first):
    """one macro process derives carriers of both roles one after the other (`first` role first): the derive of
    an item must not depend on what was derived before it.  -> {(pos, id): tokens}"""
    def item(pos, group):
        if pos == "field":
            return '#[ts(rename_all = "%s")] struct S { %s }' % (rule, " ".join("%s: u8," % i for i in group))
        return '#[ts(rename_all = "%s")] enum E { %s }' % (rule, " ".join("%s," % i for i in group))
    order = [first, "variant" if first == "field" else "field"]
    groups = [(pos, g) for pos in order for g in batches(ids, 80)]
    res = macrodrv.expand([item(pos, g) for pos, g in groups], tag="c09q")
    out = {}
    for (pos, g), (kind, text) in zip(groups, res):
        if kind != "OK":
            continue                     # panicking identifiers are found by the single-role runs
        names = macrodrv.unit_variant_names(text) if pos == "variant" else macrodrv.field_names(text)
        if len(names) == 2 * len(g) and names[:len(g)] == names[len(g):]:
            names = names[:len(g)]
        if len(names) != len(g):
            raise ToolError("cannot read %d names from the expansion (%d found)" % (len(g), len(names)))
        for i, n in zip(g, names):
            out[(pos, i)] = to_toks(n)
    return out


class Unreadable(ToolError):
    """the generated code no longer has the shape the name extraction knows"""


UNREADABLE = set()


def run(tier):
    return run_core(tier, PROP)[0]


def expand_names_or_skip(ids, rule, shape):
    """the secondary carriers: a carrier whose generated code cannot be read is left out (and reported), the
    two primary carriers (field, variant) must be readable"""
    try:
        return expand_names(ids, rule, shape)
    except Unreadable as e:
        if shape not in UNREADABLE:
            log("carrier %s left out: %s" % (shape, str(e)[:200]))
        UNREADABLE.add(shape)
        return {}


def run_core(tier, prop):
    t0 = time.time()
    UNREADABLE.clear()
    v = vlib.Verdicts(prop)
    r = vlib.run_tlc("MC_Inflection", "MC_Inflection_%s.cfg" % tier, workers=12, timeout=1800, metatag="c09p")
    if r.violated:
        v.note("model verdict: TLC reports %s violated on the transcription" % r.violated)
    else:
        vlib.tlc_must_succeed(r, "MC_Inflection")
    cases = r.payloads("CASE")
    ids = [to_str(c["id"]) for c in cases]
    by_id = {to_str(c["id"]): c for c in cases}
    # REPLAY: serde
    vlib.build_harness("rt", extra_env={"CARGO_TARGET_DIR": os.path.join(vlib.BUILD, "target-rt")})
    rt = os.path.join(vlib.BUILD, "target-rt", "release", "rt")
    cin, cout = os.path.join(vlib.TMP, "case.in"), os.path.join(vlib.TMP, "case.out")
    reqs = [(pos, rule, i) for pos in ("field", "variant") for rule in RULES for i in ids]
    with open(cin, "w", encoding="utf-8") as f:
        for pos, rule, i in reqs:
            f.write("%s\t%s\t%s\n" % (pos, rule, i))
    if subprocess.run([rt, "case", cin, cout]).returncode != 0:
        raise ToolError("rt case failed")
    lines = open(cout, encoding="utf-8").read().split("\n")
    serde_version = lines[0].split("\t")[1]
    serde = {}
    for req, line in zip(reqs, lines[1:]):
        serde[req] = ["PANIC"] if line == "PANIC" else to_toks(line.split("\t", 1)[1])
    # REPLAY: ts-rs (in-process expansion)
    ts = {}
    short = [i for i in ids if len(i) <= (2 if tier == "quick" else 3)]
    extra, rawx = {}, {}
    for rule in RULES:
        for pos in ("field", "variant"):
            for i, n in expand_names(ids, rule, pos).items():
                ts[(pos, rule, i)] = n
        for shape in ("rename_all_fields", "variant_rename_all"):
            for i, n in expand_names_or_skip(short, rule, shape).items():
                extra[(shape, rule, i)] = n
        for shape, pos in (("raw_field", "field"), ("raw_variant", "variant"), ("tagged_struct_variant", "variant"),
                           ("serde_mixed_field", "field"), ("serde_mixed_variant", "variant"), ("serde_split_field", "field"),
                           ("serde_split_variant", "variant"), ("serde_flag_struct_variant", "field")):
            for i, n in expand_names_or_skip([x for x in short if x != "_"], rule, shape).items():
                rawx[(shape, rule, i, pos)] = n
    # both roles in one macro process, in both orders (identifiers on which nothing panics)
    calm = [i for i in short if all(ts[(pos, rule, i)] != ["PANIC"] for pos in ("field", "variant") for rule in RULES)]
    seq = {}
    for rule in RULES:
        for first in ("field", "variant"):
            for (pos, i), n in expand_names_seq(calm, rule, first).items():
                seq[(pos, rule, i, first)] = n
    # explicit renames: the expected name is the rename itself (serde uses it verbatim)
    verb = {}
    plain = [i for i in short if '"' not in i and "\\" not in i]
    for rule in RULES:
        for shape, pos in (("renamed_field", "field"), ("renamed_variant", "variant")):
            for i, n in expand_names_or_skip(plain, rule, shape).items():
                verb[(shape, rule, i, pos)] = n
        for shape, pos in (("de_only_field", "field"), ("de_only_variant", "variant")):
            for i, n in expand_names_or_skip([x for x in plain if x != "_"], rule, shape).items():
                verb[(shape, rule, i, pos)] = n
    # ADJUDICATE
    recs, meta = [], []
    for (shape, rule, i, pos), n in verb.items():
        recs.append({"id": by_id[i]["id"], "pos": pos, "rule": rule, "ts": n, "serde": to_toks(i), "verbatim": True})
        meta.append((pos, rule, i, shape))
    for (pos, rule, i, first), n in seq.items():
        recs.append({"id": by_id[i]["id"], "pos": pos, "rule": rule, "ts": n, "serde": serde[(pos, rule, i)]})
        meta.append((pos, rule, i, "%s carrier, %ss derived first in the same macro process" % (pos, first)))
    for (pos, rule, i), n in ts.items():
        recs.append({"id": by_id[i]["id"], "pos": pos, "rule": rule, "ts": n, "serde": serde[(pos, rule, i)]})
        meta.append((pos, rule, i, pos))
    for (shape, rule, i, pos), n in rawx.items():
        recs.append({"id": by_id[i]["id"], "pos": pos, "rule": rule, "ts": n, "serde": serde[(pos, rule, i)]})
        meta.append((pos, rule, i, shape))
    for (shape, rule, i), n in extra.items():
        recs.append({"id": by_id[i]["id"], "pos": "field", "rule": rule, "ts": n, "serde": serde[("field", rule, i)]})
        meta.append(("field", rule, i, shape))
    for r_ in recs:
        r_.setdefault("verbatim", False)
    tpath = os.path.join(vlib.TMP, "infl-trace.ndjson")
    vlib.write_ndjson(tpath, recs)
    a = vlib.run_tlc("Trace_Inflection", "Trace_Inflection.cfg", workers=12, env={"VERIF_TRACE": tpath}, timeout=1800,
                     tags=("BAD09", "BAD16", "DRIFT"), metatag="c09a")
    vlib.tlc_must_succeed(a, "Trace_Inflection")
    if a.distinct != len(recs) + 1:
        raise ToolError("adjudication judged %d of %d records" % (a.distinct - 1, len(recs)))
    tag = "BAD09" if prop == "C09" else "BAD16"
    for k in sorted(set(a.payloads(tag))):
        pos, rule, i, carrier = meta[k - 1]
        rec = recs[k - 1]
        desc = {"prop": prop, "position": pos, "carrier": carrier, "rule": rule, "ident": i,
                "ts": "PANIC" if rec["ts"] == ["PANIC"] else to_str_safe(rec["ts"]),
                "serde": "PANIC" if rec["serde"] == ["PANIC"] else to_str_safe(rec["serde"])}
        v.fail(desc, rec)
    drift = sorted(set(a.payloads("DRIFT")))
    other = len(set(a.payloads("BAD16" if prop == "C09" else "BAD09")))
    if other:
        v.note("%d record(s) fail the sibling property (%s); reported by its own check" % (other, "C16" if prop == "C09" else "C09"))
    if drift and not v.violations:
        k = drift[0]
        v.note("drift: %d names differ from the transcription but satisfy the property, e.g. %s" % (len(drift), json.dumps(recs[k - 1])))
    if UNREADABLE:
        v.note("carriers left out because the generated code has another shape than the name extraction knows: %s" % ", ".join(sorted(UNREADABLE)))
    rc = v.finish()
    excluded = sum(1 for rec in recs if rec["serde"] == ["PANIC"])
    samples = [{"position": m[0], "carrier": m[3], "rule": m[1], "ident": m[2], "ts": to_str_safe(rec["ts"]), "serde": to_str_safe(rec["serde"])}
               for m, rec in list(zip(meta, recs))[:: max(1, len(recs) // 8)][:8]]
    cov = {"states": r.distinct + a.distinct, "transitions": r.generated + a.generated,
           "traces_validated_against_impl": len(recs), "samples": samples,
           "identifiers": len(ids), "records_adjudicated": len(recs), "drift": len(drift),
           "outside_domain_serde_itself_panics": excluded, "serde_derive_version": serde_version,
           "exhaustive": True, "carriers_left_out_unreadable": sorted(UNREADABLE),
           "rule": "every legal Rust identifier of length <= %d over {ASCII lower, ASCII upper, digit, _, non-ASCII lower, non-ASCII upper, sharp s} x 8 rules x {struct field, enum variant}, plus struct-variant fields under rename_all_fields and under a variant's own rename_all for the short identifiers; the short identifiers also with field and variant carriers derived one after the other in one macro process, in both orders" % (4 if tier == "quick" else 5)}
    if prop == PROP:
        vlib.write_evidence(prop, tier, "model_checking", cov,
                            ["identifiers on which serde_derive's own conversion panics have no wire name and are outside C09 (they stay in C16)",
                             "names are read from the in-process expansion of the real derive (token stream), serde names from serde_derive's own source"],
                            time.time() - t0, len(v.violations))
    return rc, cov


def to_str_safe(toks):
    return "".join(TOK2CH.get(t, t[1:] if t.startswith("?") else t) for t in toks)


def replay(path):
    print(json.dumps(json.load(open(path))["descriptor"], indent=1, ensure_ascii=False))
    return 1
