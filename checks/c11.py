"""C11 - an export writes exactly the root's and its dependencies' files, as documented."""
import exportchecks

PROP = "C11"
SLICES = "stale hist faults".split()


def run(tier):
    return exportchecks.run_property(PROP, SLICES, tier)


def replay(path):
    import json
    print(json.dumps(json.load(open(path))["descriptor"], indent=1))
    return 1
