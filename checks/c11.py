"""C11 - an export writes exactly the root's and its dependencies' files, as documented.

Exporter half (exportchecks): histories over the fixed universe, files written = closure of the
visit lists, locations, nothing else touched, pre-existing content.
Graph half (here): the generated modules of C03 (every edge kind x placement x directory spelling),
PREDICT Reach.tla: the documented dependency relation (by name / through inlined and flattened
types) closed from the root, and the documented location rule; REPLAY the real export_all_to into a
directory holding unrelated files; ADJUDICATE Trace_Reach.tla: changed files = predicted locations,
nothing removed, every path reported by dependencies() was written."""
import json
import os
import re
import shutil

import c03
import exportchecks
import vlib
from vlib import ToolError

PROP = "C11"
SLICES = "stale hist faults".split()


def et_of(attr, g):
    """export_to attribute text -> [given, dirform, cs] with the case number replaced by @"""
    m = re.search(r'export_to = "([^"]*)"', attr)
    if not m:
        return {"given": False, "dirform": False, "cs": []}
    s = m.group(1).replace("§", g)
    return {"given": True, "dirform": s.endswith("/"), "cs": [segs(x, g) for x in s.split("/") if x != ""]}


def segs(x, g):
    return list(x.replace(g, "@"))


def path_cs(rel, g):
    return [segs(x, g) for x in rel.split("/") if x != ""]


def placements(case, g):
    dp, rp = c03.DPLACES[case["dplace"]], c03.RPLACES[case["rplace"]]
    if case["dplace"] in c03.EXPR_PLACES:          # the documented rule applies to what the expression evaluates to
        dp = 'export_to = "%s"' % c03.EXPR_PLACES[case["dplace"]]
    if case["dplace"] == "same_as_root" or case["rplace"] == "same_as_dep":
        dp = rp = '#[ts(export_to = "both§.ts")]'
    if case["dplace"] == "same_as_root_mts":
        dp = rp = '#[ts(export_to = "both§.mts")]'
    if case["dplace"] == "same_dotdot":
        dp, rp = '#[ts(export_to = "sub§/../both§.ts")]', '#[ts(export_to = "both§.ts")]'
    return et_of(dp, g), et_of(rp, g)


def graph_half(tier, v, stats, seed):
    cfg = {"edges": {e: {"named": n, "through": t} for e, (n, t) in c03.EDGE_DEPS.items()},
           "types": {t: {"named": n, "through": th, "chars": list(t) + ["@"],
                         "et": et_of('export_to = "%s"' % c03.HELPER_PLACES[t], "§") if t in c03.HELPER_PLACES else et_of("", "§")}
                     for t, (n, th) in c03.HELPER_DEPS.items()}}
    if set(cfg["edges"]) != set(c03.EDGES):
        raise ToolError("EDGE_DEPS does not describe every edge kind")
    cfgp = os.path.join(vlib.TMP, "reach-cfg.json")
    json.dump(cfg, open(cfgp, "w"))
    st = {"states": 0, "transitions": 0}
    total = 0
    for esm in ((False,) if tier == "quick" else (False, True)):
        sandbox = vlib.shm_dir("c11g")
        try:
            units, obs, res, before = c03.export_cases(tier, esm, st, sandbox, extra_dplaces=("file_noext", "file_other_ext"))
            recs, meta = [], []
            for u in units:
                case = u.meta["case"]
                g = u.name[1:]
                d = os.path.join(sandbox, u.name)
                after = c03.snapshot(d)
                changed = sorted(p for p in after if before[u.name].get(p) != after[p])
                removed = sorted(p for p in before[u.name] if p not in after)
                d_et, r_et = placements(case, g)
                dirtext = c03.DIRS[case["dir"]]
                dirrec = {"abs": True, "cs": [list("cwd"), list("out")]} if dirtext.startswith("{ABS}") else {"abs": False, "cs": path_cs(dirtext, g)}
                info = obs[u.name]["info"]
                reported = [path_cs(x[1], g) for x in info["deps"]["ok"]] if "ok" in info["deps"] else []
                d_chars = list("RenD@") if case["dplace"].startswith("renamed_expr") else list("D@")
                recs.append({"edge": case["edge"], "d_chars": d_chars, "d_et": d_et, "r_et": r_et, "dir": dirrec, "changed": [path_cs(p, g) for p in changed],
                             "removed": [path_cs(p, g) for p in removed], "reported": reported, "ok": res[u.name] == "Ok"})
                meta.append((case, u, changed, removed, res[u.name]))
            tp = os.path.join(vlib.TMP, "reach-trace.ndjson")
            vlib.write_ndjson(tp, recs)
            a = vlib.run_tlc("Trace_Reach", "Trace_Reach.cfg", workers=8, env={"VERIF_TRACE": tp, "VERIF_CFG": cfgp}, timeout=1800, tags=("BAD",), metatag="c11g")
            vlib.tlc_must_succeed(a, "Trace_Reach")
            if a.distinct != len(recs) + 1:
                raise ToolError("adjudication judged %d of %d exports" % (a.distinct - 1, len(recs)))
            st["states"] += a.distinct
            st["transitions"] += a.generated
            total += len(recs)
            for b in a.payloads("BAD"):
                case, u, changed, removed, result = meta[b["rec"] - 1]
                def show(ps):
                    return sorted("/".join("".join(x) for x in p) for p in ps)
                for tag in sorted(b["tags"]):
                    v.fail({"prop": PROP, "slice": "graphs", "tag": tag, "edge": case["edge"], "dplace": case["dplace"], "rplace": case["rplace"],
                            "dir": case["dir"], "esm": esm},
                           {"source": u.src, "result": result, "changed": changed, "removed": removed,
                            "missing": show(b["missing"]), "extra": show(b["extra"])})
        finally:
            shutil.rmtree(sandbox, ignore_errors=True)
    stats["states"] = stats.get("states", 0) + st["states"]
    stats["transitions"] = stats.get("transitions", 0) + st["transitions"]
    stats["adjudicated"] = stats.get("adjudicated", 0) + total
    stats.setdefault("slices", {})["graphs"] = {"exports": total, "edge_kinds": len(c03.EDGES)}


def run(tier):
    return exportchecks.run_property(PROP, SLICES, tier, extra_stage=graph_half, extra_assumptions=(
        "graph half: what a generated root names / inlines is written next to its source in checks/c03.py (EDGE_DEPS) and closed by Reach.tla",))


def replay(path):
    print(json.dumps(json.load(open(path))["descriptor"], indent=1))
    return 1
