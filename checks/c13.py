"""C13 - bindings are a deterministic function of the source and configuration.

Model level: the visit order of dependencies is a nondeterministic choice in Export.tla / MC_Export.tla
(every order is explored by TLC, see C05/C06) - the exporter's result does not depend on it.
Implementation level (this check):
  builds   the dependency-graph corpus (many dependencies, several imports per file, shared files,
           generics) is compiled TWICE FROM SCRATCH (separate target directories, hence fresh macro
           processes and fresh hash seeds); every public string function of every type and every
           exported file is recorded per build;
  runs     the universe of the exporter checks (shared files, generics instantiated twice, cycles) is
           exported by 1, 2, 4 and 8 threads with shuffled orders of the roots;
  macro    every item of the corpus is expanded repeatedly by the in-process driver and the number of
           distinct dependency-statement orders is recorded (this is the nondeterminism the outputs
           must be insensitive to - if it is 1 everywhere the comparison has no teeth).
ADJUDICATE Determinism.tla: every observable has one value under all conditions."""
import hashlib
import json
import os
import random
import shutil
import subprocess
import time

import c03
import corpus
import exportlib
import macrodrv
import vlib
from vlib import ToolError, log

PROP = "C13"


def graph_units(tier):
    cfgp = os.path.join(vlib.TMP, "graphs-cfg13.json")
    json.dump({"edges": list(c03.EDGES), "dplaces": ["default", "dir", "file", "same_as_root"], "rplaces": ["default", "nested_file"],
               "dirs": ["relative"], "placed": c03.PLACED[:4] + ["deep_diamond", "case_twins", "shared_importers3"]}, open(cfgp, "w"))
    r = vlib.run_tlc("Graphs", "Graphs.cfg", workers=4, env={"VERIF_CFG": cfgp}, timeout=600, metatag="c13g")
    vlib.tlc_must_succeed(r, "Graphs")
    cases = r.payloads("CASE")
    return [c03.case_unit(n, c) for n, c in enumerate(cases)], r


# one generic definition instantiated at several values of a const parameter, in ONE process (the declaration
# depends on the value; the instantiations share the definition's statics, if it has any)
CONST_PRELUDE = ("#[derive(TS)] pub struct Grid<T, const N: usize> { pub cells: [T; N], pub n: i32 } #[derive(TS)] pub struct Plain<T> { pub t: Vec<T> } "
                 "#[derive(TS)] pub struct Block<const N: usize> { pub data: [u8; N], pub n: i32 } "
                 "#[derive(TS)] pub struct UsesBlocks { pub a: Block<2>, #[ts(inline)] pub b: Block<3>, #[ts(flatten)] pub c: Block<1> } " +
                 # several free parameters next to a concrete one (their order in name() must not depend on a hash order)
                 " ".join("#[derive(TS)] #[ts(concrete(X%d = i32))] pub struct Wide%d<A, B, C, D, X%d> { pub a: A, pub b: Vec<B>, pub c: Option<C>, pub d: (D, X%d) }" % (k, k, k, k) for k in range(4)))
CONST_UNITS = [("GridA", "Grid<u8, 2>"), ("GridB", "Grid<u8, 3>"), ("GridC", "Grid<String, 0>"), ("GridD", "Grid<u8, 65>"), ("PlainA", "Plain<i32>"), ("PlainB", "Plain<String>"),
               ("BlockA", "Block<2>"), ("BlockB", "Block<4>"), ("BlockC", "Block<0>"), ("BlocksU", "UsesBlocks")] + [
               ("Wide%dA" % k, "Wide%d<bool, String, i32, Inner, i32>" % k) for k in range(4)]


def const_units():
    return [corpus.Unit(n, "pub type %s = %s;" % (n, ty), [], serde=False, meta={"group": "Grid", "src": ty}) for n, ty in CONST_UNITS]


def build_fresh(units, tag, reverse=False):
    """an independent compilation: its own workspace copy and target directory"""
    c = corpus.Corpus(tag, units, extra_prelude="pub struct Opaque; " + c03.EXPR_PRELUDE + " " + CONST_PRELUDE)
    shutil.rmtree(c.dir, ignore_errors=True)
    if os.path.exists(c.cache):
        os.remove(c.cache)
    obs = c.observe()
    if c.rejected:
        raise ToolError("determinism corpus does not compile: %s" % json.dumps(c.rejected)[:800])
    sandbox = vlib.shm_dir("c13" + tag)
    reqs = []
    for u in units:
        d = os.path.join(sandbox, u.name)
        os.makedirs(d)
        reqs.append({"name": u.name, "cwd": d, "dir": "out"})
    c.export(reqs)
    trees = {u.name: c03.snapshot(os.path.join(sandbox, u.name)) for u in units}
    shutil.rmtree(sandbox, ignore_errors=True)
    return obs, trees, (c.observe_reversed() if reverse else None)


def thread_runs(tier, seed):
    """the exporter universe exported under different thread counts and root orders -> list of (cond, tree)"""
    rnd = random.Random(seed)
    u = exportlib.Universe()
    try:
        roots = ["Root", "Pair", "Al2", "AlphaBeta", "Wrap<Leaf>", "Wrap<Alpha>", "Al<i32>", "Al<Leaf>", "Esc", "Beta", "alpha2", "Gamma", "Mid", "Other", "Delta"]
        runs = []
        for nth in (1, 2, 4, 8):
            for rep in range(2 if tier == "quick" else 6):
                order = roots[:]
                rnd.shuffle(order)
                plans = [[] for _ in range(nth)]
                for k, r_ in enumerate(order):
                    plans[k % nth].append(dict(op="call", entry="export_all", ty=r_, env=None, dir=None, env_skip=True))
                runs.append({"rid": len(runs), "plans": plans, "pauses": [{"thread": rnd.randint(1, nth), "point": "Unlock", "nth": rnd.randint(1, 3), "ms": 2}],
                             "cond": "threads=%d order#%d" % (nth, rep)})
        rpath = os.path.join(vlib.TMP, "c13-runs.ndjson")
        opath = os.path.join(vlib.TMP, "c13-obs.ndjson")
        bpath = os.path.join(vlib.TMP, "c13-blobs.json")
        vlib.write_ndjson(rpath, runs)
        if subprocess.run([u.rt, "threads", u.sandbox, rpath, opath, bpath]).returncode != 0:
            raise ToolError("rt threads failed")
        blobs = json.load(open(bpath))
        out = []
        for line in open(opath):
            o = json.loads(line)
            out.append((runs[o["rid"]]["cond"], {p: blobs.get(b, b) for p, b in o["tree"].items()}))
        for f in (rpath, opath, bpath):
            os.remove(f)
        return out
    finally:
        u.cleanup()


def order_of_deps(tokens):
    m = c10_deps(tokens)
    return m


def c10_deps(tokens):
    import c10
    m = c10.DEPS_RE.search(tokens)
    return m.group(2) if m else ""


def run(tier):
    t0 = time.time()
    v = vlib.Verdicts(PROP)
    units, gr = graph_units(tier)
    units = units + const_units()
    builds = []
    for b in range(2 if tier == "quick" else 4):
        builds.append(build_fresh(units, "det%d" % b, reverse=(b == 0)))
    recs, meta = [], []
    fields = ("decl", "decl_concrete", "name", "inline", "inline_flattened", "export_to_string", "output_path", "docs")
    for u in units:
        for f in fields:
            vals = [{"cond": "build%d" % b, "value": json.dumps(builds[b][0][u.name]["info"][f], sort_keys=True)} for b in range(len(builds))]
            # the same build asked in the opposite order of types (one process)
            vals.append({"cond": "build0, calls in reverse order", "value": json.dumps(builds[0][2][u.name]["info"][f], sort_keys=True)})
            recs.append({"what": "%s::%s" % (u.name, f), "values": vals})
            meta.append(("string function", u.name, f, u.src))
        files = sorted(set().union(*[set(builds[b][1][u.name]) for b in range(len(builds))]))
        for fn in files:
            vals = [{"cond": "build%d" % b, "value": builds[b][1][u.name].get(fn, "<absent>")} for b in range(len(builds))]
            recs.append({"what": "%s:%s" % (u.name, fn), "values": vals})
            meta.append(("exported file", u.name, fn, u.src))
    # dependency order actually differs between the builds? (coverage of the nondeterminism)
    differing = sum(1 for u in units if len({json.dumps(builds[b][0][u.name]["info"]["deps"]) for b in range(len(builds))}) > 1)
    # runs / threads
    truns = thread_runs(tier, vlib.seed())
    allfiles = sorted(set().union(*[set(t) for _, t in truns]))
    for fn in allfiles:
        recs.append({"what": "universe:" + fn, "values": [{"cond": c, "value": t.get(fn, "<absent>")} for c, t in truns]})
        meta.append(("exported file under threads/orders", "universe", fn, ""))
    # macro level: distinct statement orders over repeated in-process expansions
    items = [u.src.split("#[derive(TS)]")[-1].strip() for u in units][:60]
    items = [i for i in items if "\n" not in i]
    orders = {}
    for rep in range(3):
        res = macrodrv.expand(items, tag="c13")
        for it, (k, txt) in zip(items, res):
            if k == "OK":
                orders.setdefault(it, set()).add(c10_deps(txt))
    multi = sum(1 for s in orders.values() if len(s) > 1)
    tp = os.path.join(vlib.TMP, "det-trace.ndjson")
    vlib.write_ndjson(tp, recs)
    a = vlib.run_tlc("Determinism", "Determinism.cfg", workers=8, env={"VERIF_TRACE": tp}, timeout=1800, tags=("BAD",), metatag="c13a")
    vlib.tlc_must_succeed(a, "Determinism")
    if a.distinct != len(recs) + 1:
        raise ToolError("adjudication judged %d of %d observables" % (a.distinct - 1, len(recs)))
    for k in sorted(set(a.payloads("BAD"))):
        kind, owner, what, src = meta[k - 1]
        vals = recs[k - 1]["values"]
        distinct = {}
        for x in vals:
            distinct.setdefault(x["value"], []).append(x["cond"])
        v.fail({"prop": PROP, "kind": kind, "owner": owner if owner == "universe" else "corpus", "what": what if owner == "universe" else what.split("/")[-1][:1] + "*",
                "distinct_values": len(distinct)},
               {"owner": owner, "what": what, "source": src, "values": [{"conditions": c, "value": val[:600]} for val, c in distinct.items()]})
    # call order: every sequence of exports into one shared file (the C05 slice) - histories that reach the
    # same exported set must leave the same bytes (Trace_Confluence.tla)
    import exportchecks
    ostats = {}
    ores = exportchecks.run_slice("samefile", tier, ostats) + exportchecks.run_slice("samefile_abs", tier, ostats)
    for r_ in ores:
        for b in r_["bad"]:
            if b["tag"] == "confluence":
                v.fail({"prop": PROP, "kind": "exported file under call orders", "owner": "universe", "what": "out/shared.ts",
                        "types": exportchecks.types_in(r_["steps"])},
                       {"history": exportchecks.describe_steps(r_["steps"]), "other": b.get("other"), "files": r_["blob_texts"]})
    # the same calls in another order: every permutation of a multiset of calls (entry point x type x spelling of
    # the directory) must leave the same directory (Trace_Confluence.tla with key = the multiset)
    hres = exportchecks.run_slice("hist", tier, ostats) + ores
    # ... and whatever an earlier run left in the directory: the files of the exported types after the same calls on an
    # empty directory and on one full of (longer) stale files
    sres = exportchecks.run_slice("stale", tier, ostats)

    def done_files(r_):
        done = {d_[0] for d_ in json.loads(r_["key"].split("|", 1)[1])}
        return {p_: b_ for p_, b_ in r_["final_tree"].items() if any(d_.endswith("/" + p_) for d_ in done)}
    import exportlib
    cross = sorted(({"key": json.dumps(sorted(exportchecks.describe_steps([s_]) for s_ in r_["steps"])), "sha": exportlib.tree_sha(done_files(r_)), "hid": n_}
                    for n_, r_ in enumerate(hres + sres)), key=lambda x: (x["key"], x["sha"]))
    cp2 = os.path.join(vlib.TMP, "c13-cross.ndjson")
    vlib.write_ndjson(cp2, cross)
    ca = vlib.run_tlc("Trace_Confluence", "Trace_Confluence.cfg", workers=8, timeout=1200, env={"VERIF_TRACE": cp2}, tags=("BAD",), metatag="c13cross")
    vlib.tlc_must_succeed(ca, "Trace_Confluence (directory contents beforehand)")
    allr = hres + sres
    for i_ in ca.payloads("BAD"):
        a_, b_ = allr[cross[i_ - 1]["hid"]], allr[cross[i_ - 2]["hid"]]
        v.fail({"prop": PROP, "kind": "files of the exported types after the same calls, other contents beforehand", "owner": "universe", "what": "tree",
                "types": exportchecks.types_in(a_["steps"])},
               {"history": exportchecks.describe_steps(a_["steps"]), "slice_a": a_["slice"], "slice_b": b_["slice"], "tree": a_["final_tree"], "other_tree": b_["final_tree"]})
    perm = sorted(({"key": json.dumps(sorted(exportchecks.describe_steps([s_]) for s_ in r_["steps"])), "sha": r_["sha"], "hid": n_} for n_, r_ in enumerate(hres)),
                  key=lambda x: (x["key"], x["sha"]))
    cpath = os.path.join(vlib.TMP, "c13-perm.ndjson")
    vlib.write_ndjson(cpath, perm)
    pa = vlib.run_tlc("Trace_Confluence", "Trace_Confluence.cfg", workers=8, timeout=1200, env={"VERIF_TRACE": cpath}, tags=("BAD",), metatag="c13perm")
    vlib.tlc_must_succeed(pa, "Trace_Confluence (permutations)")
    if pa.distinct != len(perm) + 1:
        raise ToolError("permutation pass judged %d of %d histories" % (pa.distinct - 1, len(perm)))
    for i_ in pa.payloads("BAD"):
        a_, b_ = hres[perm[i_ - 1]["hid"]], hres[perm[i_ - 2]["hid"]]
        v.fail({"prop": PROP, "kind": "directory after the same calls in another order", "owner": "universe", "what": "tree",
                "types": exportchecks.types_in(a_["steps"])},
               {"history": exportchecks.describe_steps(a_["steps"]), "other_order": exportchecks.describe_steps(b_["steps"]),
                "tree": a_["final_tree"], "other_tree": b_["final_tree"]})
    rc = v.finish()
    if differing < 5:
        v.note("only %d types had a different dependencies() order between the builds" % differing)
    cov = {"states": gr.distinct + a.distinct + ostats.get("states", 0), "transitions": gr.generated + a.generated + ostats.get("transitions", 0),
           "traces_validated_against_impl": len(recs) + len(ores),
           "samples": [{"what": recs[k]["what"], "conditions": [x["cond"] for x in recs[k]["values"]], "value": recs[k]["values"][0]["value"][:200]} for k in range(0, len(recs), max(1, len(recs) // 6))][:6],
           "independent_builds": len(builds), "types": len(units), "observables": len(recs),
           "types_whose_dependency_order_differed_between_builds": differing,
           "items_with_several_statement_orders_in_one_macro_process": multi,
           "thread_runs": len(truns), "thread_counts": [1, 2, 4, 8], "call_order_histories": len(ores), "permuted_call_histories": len(hres), "exhaustive": False,
           "rule": "observables = {decl, decl_concrete, name, inline, inline_flattened, export_to_string, output_path, DOCS} of every type of the dependency-graph corpus + every exported file, under 2/4 independent from-scratch builds; + every file of the exporter universe exported by 1/2/4/8 threads under shuffled root orders; each observable must have one value (judged by TLC); + every sequence of <= 4 exports over 7 types sharing one file: same exported set => same bytes"}
    vlib.write_evidence(PROP, tier, "model_checking", cov,
                        ["an independent build = separate workspace and target directory (the proc-macro runs in a fresh process with fresh hash seeds)",
                         "nondeterminism that never materialises in the explored builds/runs is not observed; the number of types whose dependency order really differed is reported"],
                        time.time() - t0, len(v.violations))
    return rc


def replay(path):
    print(json.dumps(json.load(open(path)), indent=1)[:3000])
    return 1
