"""C12 - built-in impls describe serde's representation of library types.

The table of library types (Builtins: rows below) is instantiated as real type aliases in a generated
crate; for each row the real TS::name() / inline() are parsed, the real serde_json output of
representative values and type-directed witnesses are judged by TLC with the denotation of
TsTypes.tla (Trace_Binding.tla), and the dependencies of a struct holding the row's type are compared
with the user types among its arguments."""
import json
import os
import time

import bindlib
import corpus
import tsparse
import vlib
import witness
from vlib import ToolError, log

PROP = "C12"

I = "Inner::v1()"
# (row name, Rust type, [value expressions], deserializable, user types among the arguments)
ROWS = []


def row(name, ty, vals, de=True, users=()):
    ROWS.append((name, ty, vals, de, list(users)))


for t in ["u8", "i8", "u16", "i16", "u32", "i32", "usize", "isize", "u64", "i64", "u128", "i128"]:
    row(t, t, ["0 as %s" % t, "7 as %s" % t])
for t in ["f32", "f64"]:
    row(t, t, ["1.5 as %s" % t, "2.0 as %s" % t])
for t in ["U8", "I8", "U16", "I16", "U32", "I32", "Usize", "Isize", "U64", "I64", "U128", "I128"]:
    row("NonZero" + t, "std::num::NonZero" + t, ["std::num::NonZero%s::new(1).unwrap()" % t])
row("bool", "bool", ["true", "false"])
row("char", "char", ["'c'", "'é'"])
row("String", "String", ['"s".to_string()', "String::new()"])
row("PathBuf", "std::path::PathBuf", ['std::path::PathBuf::from("a/b")'])
row("Ipv4Addr", "std::net::Ipv4Addr", ["std::net::Ipv4Addr::new(127, 0, 0, 1)"], de=False)
row("Ipv6Addr", "std::net::Ipv6Addr", ["std::net::Ipv6Addr::LOCALHOST"], de=False)
row("IpAddr", "std::net::IpAddr", ["std::net::IpAddr::V4(std::net::Ipv4Addr::new(1, 2, 3, 4))"], de=False)
row("SocketAddrV4", "std::net::SocketAddrV4", ["std::net::SocketAddrV4::new(std::net::Ipv4Addr::new(1, 2, 3, 4), 80)"], de=False)
row("SocketAddrV6", "std::net::SocketAddrV6", ["std::net::SocketAddrV6::new(std::net::Ipv6Addr::LOCALHOST, 80, 0, 0)"], de=False)
row("SocketAddr", "std::net::SocketAddr", ['"1.2.3.4:80".parse::<std::net::SocketAddr>().unwrap()'], de=False)
row("unit", "()", ["()"])
row("Option_i32", "Option<i32>", ["Some(1)", "None"])
row("Option_Inner", "Option<Inner>", ["Some(%s)" % I, "None"], users=["Inner"])
row("Option_Option", "Option<Option<i32>>", ["Some(Some(1))", "Some(None)", "None"])
row("Result", "Result<i32, String>", ["Ok::<i32, String>(1)", 'Err::<i32, String>("e".to_string())'])
row("Result_Inner", "Result<Inner, Vec<UnitE>>", ["Ok::<Inner, Vec<UnitE>>(%s)" % I, "Err::<Inner, Vec<UnitE>>(vec![UnitE::A])"], users=["Inner", "UnitE"])
row("Vec_i32", "Vec<i32>", ["vec![1, 2]", "Vec::<i32>::new()"])
row("Vec_Inner", "Vec<Inner>", ["vec![%s]" % I, "Vec::<Inner>::new()"], users=["Inner"])
row("Vec_Vec", "Vec<Vec<u64>>", ["vec![vec![1u64], vec![]]"])
row("BoxSlice", "Box<[i32]>", ["vec![1, 2].into_boxed_slice()"])
for n in [0, 1, 2, 3, 32]:
    row("Array%d" % n, "[i32; %d]" % n, ["[1i32; %d]" % n])
row("Array_Inner", "[Inner; 2]", ["[%s, Inner::v2()]" % I], users=["Inner"])
row("Array63", "[i32; 63]", [], de=False)
row("Array64", "[i32; 64]", [], de=False)
row("Vec_Array64", "Vec<[u8; 64]>", [], de=False)
row("Option_Array65", "Option<[bool; 65]>", [], de=False)
row("Array65", "[i32; 65]", [], de=False)
row("Tuple1", "(i32,)", ["(1,)"])
row("Tuple2", "(i32, String)", ['(1, "a".to_string())'])
row("Tuple3", "(i32, Inner, Option<bool>)", ["(1, %s, None)" % I], users=["Inner"])
row("Tuple10", "(u8, u8, u8, u8, u8, u8, u8, u8, u8, u8)", ["(1, 2, 3, 4, 5, 6, 7, 8, 9, 10)"])
row("HashSet", "HashSet<i32>", ["HashSet::from([1])", "HashSet::<i32>::new()"])
row("BTreeSet", "BTreeSet<String>", ['BTreeSet::from(["a".to_string()])'])
row("BTreeSet_E", "BTreeSet<UnitE>", ["BTreeSet::from([UnitE::A, UnitE::B])"], users=["UnitE"])
row("HashMap_S", "HashMap<String, i32>", ['HashMap::from([("k".to_string(), 1)])', "HashMap::<String, i32>::new()"])
row("BTreeMap_i32", "BTreeMap<i32, Inner>", ["BTreeMap::from([(5, %s)])" % I], users=["Inner"])
row("BTreeMap_u64", "BTreeMap<u64, bool>", ["BTreeMap::from([(5u64, true)])"])
row("BTreeMap_bool", "BTreeMap<bool, i32>", ["BTreeMap::from([(true, 1)])"])
row("BTreeMap_char", "BTreeMap<char, i32>", ["BTreeMap::from([('x', 1)])"])
row("BTreeMap_E", "BTreeMap<UnitE, Vec<Inner>>", ["BTreeMap::from([(UnitE::A, vec![%s])])" % I], users=["UnitE", "Inner"])
row("Map_of_Map", "BTreeMap<String, BTreeMap<String, Option<i32>>>", ['BTreeMap::from([("a".to_string(), BTreeMap::from([("b".to_string(), None)]))])'])
row("Range", "std::ops::Range<i32>", ["1..3"])
row("RangeInclusive", "std::ops::RangeInclusive<u64>", ["1u64..=3u64"])
row("Range_Inner", "std::ops::Range<Inner>", ["%s..Inner::v2()" % I], users=["Inner"])
row("Box", "Box<Inner>", ["Box::new(%s)" % I], users=["Inner"])
row("Rc", "std::rc::Rc<Inner>", ["std::rc::Rc::new(%s)" % I], users=["Inner"])
row("Arc", "std::sync::Arc<Vec<Inner>>", ["std::sync::Arc::new(vec![%s])" % I], users=["Inner"])
row("Cow", "std::borrow::Cow<'static, str>", ['std::borrow::Cow::Borrowed("s")'])
row("Cell", "std::cell::Cell<i32>", ["std::cell::Cell::new(1)"])
row("RefCell", "std::cell::RefCell<Inner>", ["std::cell::RefCell::new(%s)" % I], users=["Inner"])
row("Mutex", "std::sync::Mutex<Inner>", ["std::sync::Mutex::new(%s)" % I], users=["Inner"])
row("RwLock", "std::sync::RwLock<Option<Inner>>", ["std::sync::RwLock::new(Some(%s))" % I], users=["Inner"])
row("Weak", "std::sync::Weak<Inner>", ["std::sync::Weak::<Inner>::new()", "{ let a = std::sync::Arc::new(%s); let w = std::sync::Arc::downgrade(&a); std::mem::forget(a); w }" % I], de=False, users=["Inner"])
row("PhantomData", "std::marker::PhantomData<Inner>", ["std::marker::PhantomData::<Inner>"], users=[])
row("Gen_of_Vec", "Gen<Vec<Inner>>", ["Gen { g: vec![%s], o: None }" % I], users=["Gen", "Inner"])
row("Option_Box_Vec", "Option<Box<Vec<Option<Inner>>>>", ["Some(Box::new(vec![None, Some(%s)]))" % I, "None"], users=["Inner"])
row("Vec_Tuple_Map", "Vec<(String, BTreeMap<String, Inner>)>", ['vec![("a".to_string(), BTreeMap::from([("k".to_string(), %s)]))]' % I], users=["Inner"])
row("JsonValue", "serde_json::Value", ['serde_json::json!({"a": [1, null, "s", true, {"b": 1.5}]})', "serde_json::Value::Null"], users=["JsonValue"])


# ---- feature-gated third-party rows (second corpus; needs the *-impl features of ts-rs)
ROWS3 = []


def row3(name, ty, vals, de=True, users=()):
    ROWS3.append((name, ty, vals, de, list(users)))


row3("chrono::NaiveDate", "chrono::NaiveDate", ["chrono::NaiveDate::from_ymd_opt(2020, 1, 2).unwrap()"], de=False)
row3("chrono::NaiveTime", "chrono::NaiveTime", ["chrono::NaiveTime::from_hms_opt(1, 2, 3).unwrap()"], de=False)
row3("chrono::NaiveDateTime", "chrono::NaiveDateTime", ["chrono::NaiveDate::from_ymd_opt(2020, 1, 2).unwrap().and_hms_opt(1, 2, 3).unwrap()"], de=False)
row3("chrono::DateTime<Utc>", "chrono::DateTime<chrono::Utc>", ["chrono::DateTime::<chrono::Utc>::from_timestamp(0, 0).unwrap()"], de=False)
row3("chrono::DateTime<FixedOffset>", "chrono::DateTime<chrono::FixedOffset>", ["chrono::DateTime::<chrono::Utc>::from_timestamp(0, 0).unwrap().fixed_offset()"], de=False)
row3("chrono::Month", "chrono::Month", ["chrono::Month::January"], de=False)
row3("chrono::Weekday", "chrono::Weekday", ["chrono::Weekday::Mon"], de=False)
row3("uuid::Uuid", "uuid::Uuid", ["uuid::Uuid::nil()"], de=False)
row3("url::Url", "url::Url", ['url::Url::parse("https://example.com/a?b=c").unwrap()'], de=False)
row3("bigdecimal::BigDecimal", "bigdecimal::BigDecimal", ['"1.50".parse::<bigdecimal::BigDecimal>().unwrap()'], de=False)
row3("bson::oid::ObjectId", "bson::oid::ObjectId", ["bson::oid::ObjectId::from_bytes([1u8; 12])"], de=False)
row3("bson::Uuid", "bson::Uuid", ["bson::Uuid::from_bytes([1u8; 16])"], de=False)
row3("bytes::Bytes", "bytes::Bytes", ['bytes::Bytes::from_static(b"ab")', "bytes::Bytes::new()"])
row3("bytes::BytesMut", "bytes::BytesMut", ['bytes::BytesMut::from(&b"ab"[..])'])
row3("indexmap::IndexSet", "indexmap::IndexSet<String>", ['indexmap::IndexSet::from(["a".to_string()])'])
row3("indexmap::IndexMap", "indexmap::IndexMap<String, Inner>", ['indexmap::IndexMap::from([("k".to_string(), Inner::v1())])'], users=["Inner"])
row3("OrderedFloat<f64>", "ordered_float::OrderedFloat<f64>", ["ordered_float::OrderedFloat(1.5f64)"])
row3("OrderedFloat<f32>", "ordered_float::OrderedFloat<f32>", ["ordered_float::OrderedFloat(1.5f32)"])
row3("heapless::Vec", "heapless::Vec<i32, 4>", ["heapless::Vec::<i32, 4>::from_slice(&[1, 2]).unwrap()"])
row3("semver::Version", "semver::Version", ["semver::Version::new(1, 2, 3)"], de=False)
row3("smol_str::SmolStr", "smol_str::SmolStr", ['smol_str::SmolStr::new("s")'])
row3("serde_json::Number", "serde_json::Number", ["serde_json::Number::from(3)"])
row3("serde_json::Map", "serde_json::Map<String, serde_json::Value>", ['{ let mut m = serde_json::Map::new(); m.insert("k".to_string(), serde_json::json!([1, "s"])); m }'], users=["JsonValue"])
row3("Option<Vec<Uuid>>", "Option<Vec<uuid::Uuid>>", ["Some(vec![uuid::Uuid::nil()])", "None"], de=False)
row3("BTreeMap<Uuid, Inner>", "BTreeMap<uuid::Uuid, Inner>", ["BTreeMap::from([(uuid::Uuid::nil(), Inner::v1())])"], de=False, users=["Inner"])
row3("tokio::Mutex", "tokio::sync::Mutex<Inner>", [], de=False, users=["Inner"])
row3("tokio::RwLock", "tokio::sync::RwLock<Vec<Inner>>", [], de=False, users=["Inner"])
row3("tokio::OnceCell", "tokio::sync::OnceCell<i32>", [], de=False)
NOSERDE3 = {"tokio::Mutex", "tokio::RwLock", "tokio::OnceCell"}
FEATURES3 = ("serde-compat", "serde-json-impl", "chrono-impl", "uuid-impl", "url-impl", "bigdecimal-impl", "bson-uuid-impl", "bytes-impl",
             "indexmap-impl", "ordered-float-impl", "heapless-impl", "semver-impl", "smol_str-impl", "tokio-impl")
DEPS3 = """chrono = { version = "0.4", features = ["serde"] }
uuid = { version = "1", features = ["serde"] }
url = { version = "2", features = ["serde"] }
bigdecimal = { version = "0.4", features = ["serde"] }
bson = "2"
bytes = { version = "1", features = ["serde"] }
indexmap = { version = "2", features = ["serde"] }
ordered-float = { version = "4", features = ["serde"] }
heapless = { version = "0.8", features = ["serde"] }
semver = { version = "1", features = ["serde"] }
smol_str = { version = "0.3", features = ["serde"] }
tokio = { version = "1", features = ["sync"] }
"""


# ---- "transparent wrappers are their content" / shadow impls: pairs of types whose three presentations
# (name, inline, inline_flattened - or its refusal) have to be the same type
CONTENTS = ["Inner", "DataE", "TagE", "UnitE", "BTreeMap<String, i32>", "Option<Inner>", "Gen<i32>", "(i32, String)", "Vec<Inner>", "i32"]
WRAPPERS = {"Ref": "&'static §", "Box": "Box<§>", "Arc": "std::sync::Arc<§>", "Rc": "std::rc::Rc<§>", "Cow": "std::borrow::Cow<'static, §>",
            "Cell": "std::cell::Cell<§>", "RefCell": "std::cell::RefCell<§>", "Mutex": "std::sync::Mutex<§>", "RwLock": "std::sync::RwLock<§>",
            "Box<Arc>": "Box<std::sync::Arc<§>>"}
WRAPPERS3 = {"tokio::Mutex": "tokio::sync::Mutex<§>", "tokio::OnceCell": "tokio::sync::OnceCell<§>", "tokio::RwLock": "tokio::sync::RwLock<§>"}
SHADOWS = [("HashSet", "HashSet<Inner>", "Vec<Inner>"), ("BTreeSet", "BTreeSet<UnitE>", "Vec<UnitE>"), ("slice", "[Inner]", "Vec<Inner>"),
           ("BTreeMap", "BTreeMap<String, Inner>", "HashMap<String, Inner>"), ("RangeInclusive", "std::ops::RangeInclusive<i32>", "std::ops::Range<i32>")]
# NonZero*: serde writes them as the primitive, so they are bound like the primitive
SHADOWS += [("NonZero" + t.capitalize(), "std::num::NonZero" + t.capitalize(), t) for t in
            ["u8", "i8", "u16", "i16", "u32", "i32", "usize", "isize", "u64", "i64", "u128", "i128"]]
# nested fixed-size arrays: each level is a tuple up to the limit on its own length
SHADOWS += [("nested array 32x3", "[[u8; 32]; 3]", "([u8; 32], [u8; 32], [u8; 32])"), ("nested array 9x9", "[[f64; 9]; 2]", "([f64; 9], [f64; 9])"),
            ("array of tuples", "[(f32, f32, f32); 24]", "[(f32, f32, f32); 24]"), ("nested array 65x2", "[[u8; 65]; 2]", "(Vec<u8>, Vec<u8>)")]
SHADOWS3 = [("IndexSet", "indexmap::IndexSet<Inner>", "Vec<Inner>"), ("IndexMap", "indexmap::IndexMap<String, Inner>", "HashMap<String, Inner>"),
            ("heapless::Vec", "heapless::Vec<Inner, 4>", "Vec<Inner>"), ("Bytes", "bytes::Bytes", "Vec<u8>"), ("BytesMut", "bytes::BytesMut", "Vec<u8>"),
            ("serde_json::Map", "serde_json::Map<String, Inner>", "HashMap<String, Inner>")]


def pair_rows(third):
    rows = [("%s of %s" % (w, c), t.replace("§", c), c) for w, t in (WRAPPERS3 if third else WRAPPERS).items() for c in CONTENTS]
    return rows + [("%s (shadow)" % n, a, b) for n, a, b in (SHADOWS3 if third else SHADOWS)]


def pair_units(third):
    units = []
    for n, (name, a, b) in enumerate(pair_rows(third)):
        units.append(corpus.Unit("PA%d" % n, "pub type PA%d = %s;" % (n, a), [], serde=False, meta={"pair": name}))
        units.append(corpus.Unit("PB%d" % n, "pub type PB%d = %s;" % (n, b), [], serde=False, meta={"pair": name}))
    return units


def judge_pairs(third, obs, v, acc):
    for n, (name, a, b) in enumerate(pair_rows(third)):
        ia, ib = obs["PA%d" % n]["info"], obs["PB%d" % n]["info"]
        for which in ("name", "inline", "inline_flattened"):
            ra, rb = ia[which], ib[which]
            if "ok" not in ra or "ok" not in rb:
                # a type that cannot be flattened refuses in both forms
                if ("ok" in ra) != ("ok" in rb):
                    v.fail({"prop": PROP, "row": name, "tag": "wrapper_differs_from_content", "which": which}, {"wrapper": ra, "content": rb, "types": [a, b]})
                acc["pairs"] += 1
                continue
            try:
                ta, tb = tsparse.strip(tsparse.parse_type(ra["ok"])), tsparse.strip(tsparse.parse_type(rb["ok"]))
            except tsparse.TsSyntaxError as e:
                v.fail({"prop": PROP, "row": name, "tag": "type_does_not_parse", "which": which}, {"texts": [ra["ok"], rb["ok"]], "error": str(e)})
                continue
            acc["records"].append({"kind": "same", "decls": [], "root": ta, "other": tb, "json": {"k": "null"}, "accepted": True, "reser": {"k": "null"}})
            acc["meta"].append((name, which, "same", ra["ok"], rb["ok"]))
            acc["pairs"] += 1


def build_units3():
    units = bindlib.helper_units()
    for n, (name, ty, vals, de, users) in enumerate(ROWS3):
        serde = name not in NOSERDE3
        units.append(corpus.Unit("M%d" % n, "pub type M%d = %s;" % (n, ty), vals if serde else [], serde=serde, deser=de and serde, meta={"row": name, "ty": ty, "users": users}))
        units.append(corpus.Unit("E%d" % n, "#[derive(TS)] pub struct E%d { pub f: %s }" % (n, ty), [], serde=False, meta={"depsof": n}))
        units.append(corpus.Unit("EO%d" % n, "#[derive(TS)] #[ts(optional_fields)] pub struct EO%d { pub f: %s }" % (n, ty), [], serde=False, meta={"optof": n}))
    return units + pair_units(True)


def build_units():
    units = bindlib.helper_units()
    for n, (name, ty, vals, de, users) in enumerate(ROWS):
        u = corpus.Unit("L%d" % n, "pub type L%d = %s;" % (n, ty), vals, serde=True, deser=de, meta={"row": name, "ty": ty, "users": users})
        units.append(u)
        units.append(corpus.Unit("D%d" % n, "#[derive(TS)] pub struct D%d { pub f: %s }" % (n, ty), [], serde=False, meta={"depsof": n}))
        units.append(corpus.Unit("DO%d" % n, "#[derive(TS)] #[ts(optional_fields)] pub struct DO%d { pub f: %s }" % (n, ty), [], serde=False, meta={"optof": n}))
    return units + pair_units(False)


def judge_rows(rows, prefix, dprefix, c, obs, env, v, acc):
    """rows of one corpus -> records/meta appended to acc; dependency rows judged directly"""
    wreqs = []
    for n, (name, ty, vals, de, users) in enumerate(rows):
        o = obs["%s%d" % (prefix, n)]
        info = o["info"]
        for which in ("name", "inline"):
            if "ok" not in info[which]:
                if which == "name":
                    v.fail({"prop": PROP, "row": name, "tag": "name_panics"}, info)
                continue
            try:
                root = tsparse.strip(tsparse.parse_type(info[which]["ok"]))
            except tsparse.TsSyntaxError as e:
                v.fail({"prop": PROP, "row": name, "tag": "type_does_not_parse", "which": which}, {"text": info[which]["ok"], "error": str(e)})
                continue
            for k, s in enumerate(o["samples"]):
                if "ok" not in s:
                    continue
                acc["records"].append({"kind": "ser", "decls": [], "root": root, "json": tsparse.json_value(json.loads(s["ok"])), "accepted": True, "reser": {"k": "null"}})
                acc["meta"].append((name, which, "ser", s["ok"], info[which]["ok"]))
            if which == "name" and de:
                for wn, w in enumerate(witness.witnesses(root, env, limit=12)):
                    wreqs.append(("w-%s%d-%d" % (prefix, n, wn), "%s%d" % (prefix, n), json.dumps(w), root, name, info[which]["ok"], w))
    res = c.deser([(a_, b_, cc) for a_, b_, cc, *_ in wreqs]) if wreqs else {}
    for wid, uname, js, root, name, text, w in wreqs:
        r = res[wid]
        acc_ = "ok" in r
        acc["records"].append({"kind": "wit", "decls": [], "root": root, "json": tsparse.json_value(w), "accepted": acc_,
                               "reser": tsparse.json_value(json.loads(r["ok"])) if acc_ else {"k": "null"}})
        acc["meta"].append((name, "name", "wit", js, text, r))
    # a type built from library types only has one presentation: name() and inline() are the same type
    for n, (name, ty, vals, de, users) in enumerate(rows):
        if users:
            continue
        info = obs["%s%d" % (prefix, n)]["info"]
        if "ok" in info["name"] and "ok" in info["inline"]:
            try:
                ta, tb = tsparse.strip(tsparse.parse_type(info["name"]["ok"])), tsparse.strip(tsparse.parse_type(info["inline"]["ok"]))
            except tsparse.TsSyntaxError:
                continue
            acc["records"].append({"kind": "same", "decls": [], "root": ta, "other": tb, "json": {"k": "null"}, "accepted": True, "reser": {"k": "null"}})
            acc["meta"].append((name, "name() vs inline()", "same", info["name"]["ok"][:200], info["inline"]["ok"][:200]))
            acc["pairs"] += 1
    # only Option is an option: under #[ts(optional_fields)] a field of any other library type is bound as without it
    for n, (name, ty, vals, de, users) in enumerate(rows):
        if ty.startswith("Option<"):
            continue
        a_, b_ = obs["%sO%d" % (dprefix, n)]["info"]["inline"], obs["%s%d" % (dprefix, n)]["info"]["inline"]
        if "ok" not in a_ or "ok" not in b_:
            if ("ok" in a_) != ("ok" in b_):
                v.fail({"prop": PROP, "row": name, "tag": "optional_fields_changes_non_option", "which": "inline"}, {"with": a_, "without": b_})
            continue
        acc["records"].append({"kind": "same", "decls": [], "root": tsparse.strip(tsparse.parse_type(a_["ok"])), "other": tsparse.strip(tsparse.parse_type(b_["ok"])),
                               "json": {"k": "null"}, "accepted": True, "reser": {"k": "null"}})
        acc["meta"].append((name, "field under optional_fields", "same", a_["ok"], b_["ok"]))
        acc["pairs"] += 1
    for n, (name, ty, vals, de, users) in enumerate(rows):
        d = obs["%s%d" % (dprefix, n)]["info"]["deps"]
        if "ok" not in d:
            v.fail({"prop": PROP, "row": name, "tag": "dependencies_panics"}, d)
            continue
        real = sorted({x[0] for x in d["ok"]})
        acc["ndeps"] += 1
        if real != sorted(users):
            v.fail({"prop": PROP, "row": name, "tag": "dependencies"}, {"real": real, "expected": sorted(users), "type": ty})


def run(tier):
    t0 = time.time()
    v = vlib.Verdicts(PROP)
    acc = {"records": [], "meta": [], "ndeps": 0, "pairs": 0}
    c = corpus.Corpus("builtins", build_units(), features=("serde-compat", "serde-json-impl"))
    obs = c.observe()
    env = bindlib.base_env(obs)
    jv = [n for n, r_ in enumerate(ROWS) if r_[0] == "JsonValue"][0]
    env["JsonValue"] = {k: bindlib.decl_record(obs["L%d" % jv]["info"]["decl"]["ok"])[k] for k in ("params", "body")}
    if c.rejected:
        raise ToolError("rows of the builtin table do not compile: %s" % json.dumps(c.rejected)[:1500])
    judge_rows(ROWS, "L", "D", c, obs, env, v, acc)
    judge_pairs(False, obs, v, acc)
    c3 = corpus.Corpus("builtins3p", build_units3(), features=FEATURES3, extra_deps=DEPS3)
    obs3 = c3.observe()
    if c3.rejected:
        raise ToolError("third-party rows do not compile: %s" % json.dumps(c3.rejected)[:1500])
    judge_rows(ROWS3, "M", "E", c3, obs3, env, v, acc)
    judge_pairs(True, obs3, v, acc)
    comp = composed_stage(tier, v, env, acc)
    if comp["name_drift"] or comp["json_drift"]:
        v.note("drift: Builtins.tla predicts another name() for %d composed types and another JSON for %d values (samples in the evidence); the verdicts are computed on the real output" % (comp["name_drift"], comp["json_drift"]))
    if comp["model_invariant_violated"]:
        v.note("model verdict: TLC reports %s violated on Builtins.tla (%d terms)" % (comp["model_invariant_violated"], comp["model_says_violation"]))
    records, meta = acc["records"], acc["meta"]
    bad, tool, a = bindlib.adjudicate(records, env, "c12")
    for i in sorted(bad):
        m = meta[i - 1]
        if m[2] == "same":
            v.fail({"prop": PROP, "row": m[0], "tag": "wrapper_differs_from_content", "which": m[1]}, {"wrapper": m[3], "content": m[4]})
            continue
        v.fail({"prop": PROP, "row": m[0], "tag": "value_not_in_type" if m[2] == "ser" else "inhabitant_rejected", "which": m[1]},
               {"json": m[3], "type": m[4], "serde": m[5] if len(m) > 5 else None})
    rc = v.finish()
    cov = {"states": a.distinct + comp["states"], "transitions": a.generated + comp["transitions"], "traces_validated_against_impl": len(records) - len(tool),
           "composed_terms": {k: comp[k] for k in comp if k not in ("states", "transitions")},
           "samples": [{"row": m[0], "kind": m[2], "json": m[3], "type": m[4]} for m in meta[:: max(1, len(meta) // 8)][:8]],
           "rows": len(ROWS) + len(ROWS3), "third_party_rows": len(ROWS3), "serialized_values": sum(1 for m in meta if m[2] == "ser"),
           "witnesses": sum(1 for m in meta if m[2] == "wit"), "dependency_rows": acc["ndeps"], "wrapper_content_comparisons": acc["pairs"], "exhaustive": False,
           "rule": "one row per supported std / serde_json / feature-gated third-party type (and compositions to depth 2-3); per row: real name() and inline() parsed; every representative value's real serde_json output and up to 12 type-directed witnesses judged by TLC; dependencies of `struct D { f: Row }` compared with the user types among the arguments; every transparent wrapper (13) x 10 contents and every shadow impl: name / inline / inline_flattened equal to the content's; composed terms: every composition of the std constructors to depth 2 (Builtins.tla / MC_Builtins.tla: predicted name() and JSON compared with the real ones, model invariant C12_Model, real values and witnesses adjudicated)"}
    vlib.write_evidence(PROP, tier, "model_checking", cov,
                        ["arrays carry values only up to N = 32 (serde's limit); N = 64 / 65 are checked by name only",
                         "string-like types with a value grammar (addresses, dates, uuids, urls, versions) are checked for shape only: serialized values, no witnesses",
                         "tokio's Mutex / RwLock / OnceCell have no serde impl: name and dependencies only"],
                        time.time() - t0, len(v.violations))
    return rc


def replay(path):
    print(json.dumps(json.load(open(path)), indent=1)[:3000])
    return 1


# ---- composed terms: PREDICT with Builtins.tla (MC_Builtins.tla), REPLAY as type aliases, compare and adjudicate
B_LEAVES = {
    "i32": ("i32", ["1", "-7"]), "u64": ("u64", ["3u64", "0u64"]), "f64": ("f64", ["1.5", "2.0"]), "bool": ("bool", ["true", "false"]),
    "char": ("char", ["'c'", "'é'"]), "String": ("String", ['"hi".to_string()', "String::new()"]), "unit": ("()", ["()"]),
    "Inner": ("Inner", ["Inner::v1()", "Inner::v2()"]), "UnitE": ("UnitE", ["UnitE::A", "UnitE::B"]),
}
B_KEY = ["String", "i32", "u64", "char", "bool", "UnitE"]
B_HASH = ["i32", "u64", "bool", "char", "String", "UnitE"]
B_COPY = ["i32", "u64", "f64", "bool", "char"]
B_TYPE = {"Option": "Option<{0}>", "Vec": "Vec<{0}>", "HashSet": "HashSet<{0}>", "BTreeSet": "BTreeSet<{0}>", "Slice": "Box<[{0}]>", "Array2": "[{0}; 2]",
          "Array0": "[{0}; 0]", "Tuple1": "({0},)", "Tuple2": "({0}, {1})", "Tuple3": "({0}, {1}, {2})", "HashMap": "HashMap<{0}, {1}>",
          "BTreeMap": "BTreeMap<{0}, {1}>", "Result": "Result<{0}, {1}>", "Range": "std::ops::Range<{0}>", "RangeInclusive": "std::ops::RangeInclusive<{0}>",
          "Box": "Box<{0}>", "Rc": "std::rc::Rc<{0}>", "Arc": "std::sync::Arc<{0}>", "Cow": "std::borrow::Cow<'static, {0}>", "Cell": "std::cell::Cell<{0}>",
          "RefCell": "std::cell::RefCell<{0}>", "Mutex": "std::sync::Mutex<{0}>", "RwLock": "std::sync::RwLock<{0}>", "Weak": "std::sync::Weak<{0}>",
          "PhantomData": "std::marker::PhantomData<{0}>", "Ref": "&'static {0}"}
B_WRAP = {"Box": "Box::new({0})", "Rc": "std::rc::Rc::new({0})", "Arc": "std::sync::Arc::new({0})", "Cow": "std::borrow::Cow::Owned({0})",
          "Cell": "std::cell::Cell::new({0})", "RefCell": "std::cell::RefCell::new({0})", "Mutex": "std::sync::Mutex::new({0})",
          "RwLock": "std::sync::RwLock::new({0})", "Ref": "&*Box::leak(Box::new({0}))"}
B_ALL_UNARY = ["Option", "Vec", "HashSet", "BTreeSet", "Slice", "Array2", "Array0", "Tuple1", "Range", "RangeInclusive", "Box", "Rc", "Arc", "Cow", "Cell",
               "RefCell", "Mutex", "RwLock", "Weak", "PhantomData", "Ref"]


def b_type(t):
    if not t["as"]:
        return B_LEAVES[t["c"]][0]
    return B_TYPE[t["c"]].format(*[b_type(a) for a in t["as"]])


def b_value(t, v):
    f, c = v["f"], t["c"]
    if f == "leaf":
        return B_LEAVES[c][1][v["i"] - 1]
    xs = None
    if f == "wrap":
        return B_WRAP[c].format(b_value(t["as"][0], v["vs"][0]))
    if f == "some":
        return "Some(%s)" % b_value(t["as"][0], v["vs"][0])
    if f == "none":
        return "None"
    if f == "dead":
        return "std::sync::Weak::new()"
    if f == "phantom":
        return "std::marker::PhantomData"
    if f == "seq":
        if c in ("Tuple2", "Tuple3"):
            xs = [b_value(t["as"][i], x) for i, x in enumerate(v["vs"])]
            return "(%s)" % ", ".join(xs)
        xs = [b_value(t["as"][0], x) for x in v["vs"]]
        if c == "Tuple1":
            return "(%s,)" % xs[0]
        if c in ("Array2", "Array0"):
            return "[%s]" % ", ".join(xs)
        if c == "Vec":
            return "vec![%s]" % ", ".join(xs)
        if c == "Slice":
            return "vec![%s].into_boxed_slice()" % ", ".join(xs)
        return "%s::from([%s])" % (c, ", ".join(xs)) if xs else "%s::new()" % c
    if f == "map":
        if not v["vs"]:
            return "%s::new()" % c
        return "%s::from([(%s, %s)])" % (c, B_LEAVES[t["as"][0]["c"]][1][v["i"] - 1], b_value(t["as"][1], v["vs"][0]))
    if f == "ok":
        return "Ok(%s)" % b_value(t["as"][0], v["vs"][0])
    if f == "err":
        return "Err(%s)" % b_value(t["as"][1], v["vs"][0])
    if f == "range":
        a, b = [b_value(t["as"][0], x) for x in v["vs"]]
        return "(%s)..(%s)" % (a, b) if c == "Range" else "(%s)..=(%s)" % (a, b)
    raise ToolError("value form " + f)


def b_mentions(t, names):
    return t["c"] in names or any(b_mentions(a, names) for a in t["as"])


def b_depth(t):
    return 0 if not t["as"] else 1 + max(b_depth(a) for a in t["as"])


def composed_stage(tier, v, env, acc):
    """-> statistics of the composed-terms stage"""
    import derivelib
    q = tier == "quick"
    # leaf facts, measured
    lunits = bindlib.helper_units()
    for n, (ty, vals) in B_LEAVES.items():
        lunits.append(corpus.Unit("BL_" + n.replace("()", "unit"), "pub type BL_%s = %s;" % (n, ty), vals, serde=True, deser=False))
        if n in B_KEY:
            lunits.append(corpus.Unit("BK_" + n, "pub type BK_%s = BTreeMap<%s, i32>;" % (n, ty), ["BTreeMap::from([(%s, 0)])" % x for x in vals], serde=True, deser=False))
    lc = corpus.Corpus("builtin-leaves", lunits)
    lobs = lc.observe()
    if lc.rejected:
        raise ToolError("leaf units do not compile: %s" % json.dumps(lc.rejected)[:800])
    leaf = {}
    for n in B_LEAVES:
        o = lobs["BL_" + n]
        keys = []
        if n in B_KEY:
            for s in lobs["BK_" + n]["samples"]:
                k = list(json.loads(s["ok"]).keys())[0]
                keys.append({"s": k, "num": bool(__import__("re").fullmatch(r"-?\d+(\.\d+)?", k))})
        leaf[n] = {"ts": tsparse.strip(tsparse.parse_type(o["info"]["name"]["ok"])), "vals": [tsparse.json_value(json.loads(s["ok"])) for s in o["samples"]], "keys": keys}
    leaves = ["i32", "u64", "String", "unit", "Inner", "UnitE", "bool"] if q else list(B_LEAVES)
    cfg = {"leaf": leaf, "env": {k: env[k] for k in ("Inner", "UnitE")}, "leaves": leaves,
           "keyleaves": ["String", "i32", "UnitE"] if q else B_KEY, "hashleaves": [x for x in B_HASH if x in leaves],
           "copyleaves": [x for x in B_COPY if x in leaves], "second": ["i32", "String"], "depth": 2,
           "levels": [{"unary": B_ALL_UNARY, "nary": ["Result", "Tuple2", "Tuple3"], "maps": ["HashMap", "BTreeMap"]},
                      {"unary": ["Option", "Vec", "Mutex", "Weak"] if q else B_ALL_UNARY, "nary": [] if q else ["Result", "Tuple2"],
                       "maps": ["BTreeMap"]}]}
    cfgp = os.path.join(vlib.TMP, "builtins-cfg.json")
    json.dump(cfg, open(cfgp, "w"))
    r = vlib.run_tlc("MC_Builtins", "MC_Builtins.cfg", workers=12, env={"VERIF_BUILTINS": cfgp}, timeout=3000, tags=("PRED",), metatag="c12b", xmx="8g")
    model_violated = r.violated
    if model_violated:
        r = vlib.run_tlc("MC_Builtins", "MC_Builtins_report.cfg", workers=12, env={"VERIF_BUILTINS": cfgp}, timeout=3000, tags=("PRED",), metatag="c12b", xmx="8g")
    vlib.tlc_must_succeed(r, "MC_Builtins")
    preds = sorted(r.payloads("PRED"), key=lambda p: json.dumps(p["term"], sort_keys=True))
    units = bindlib.helper_units()
    for n, p in enumerate(preds):
        t = p["term"]
        de = not b_mentions(t, {"Ref", "Weak"})
        units.append(corpus.Unit("CT%d" % n, "pub type CT%d = %s;" % (n, b_type(t)), [b_value(t, x["v"]) for x in p["values"]], serde=True, deser=de, meta={"pred": p}))
    c = corpus.Corpus("builtin-terms-" + tier, units)
    obs = c.observe()
    if c.rejected:
        raise ToolError("composed terms do not compile: %s" % json.dumps(c.rejected)[:1500])
    st = {"terms": len(preds), "by_depth": {}, "name_equal": 0, "name_drift": 0, "json_equal": 0, "json_drift": 0, "model_says_violation": 0,
          "states": r.distinct, "transitions": r.generated, "model_invariant_violated": model_violated}
    wreqs = []
    for n, p in enumerate(preds):
        t = p["term"]
        ty = b_type(t)
        st["by_depth"][str(b_depth(t))] = st["by_depth"].get(str(b_depth(t)), 0) + 1
        if not p["model_ok"]:
            st["model_says_violation"] += 1
        o = obs["CT%d" % n]
        info = o["info"]
        if "ok" not in info["name"]:
            v.fail({"prop": PROP, "row": ty, "tag": "name_panics", "composed": True}, info["name"])
            continue
        try:
            root = tsparse.strip(tsparse.parse_type(info["name"]["ok"]))
        except tsparse.TsSyntaxError as e:
            v.fail({"prop": PROP, "row": ty, "tag": "type_does_not_parse", "which": "name", "composed": True}, {"text": info["name"]["ok"], "error": str(e)})
            continue
        if derivelib.norm(root) == derivelib.norm(p["ts"]):
            st["name_equal"] += 1
        else:
            st["name_drift"] += 1
            st.setdefault("drift_samples", []).append({"type": ty, "real": info["name"]["ok"], "model": json.dumps(derivelib.norm(p["ts"]))[:300]})
        for pv, s in zip(p["values"], o["samples"]):
            if "ok" not in s:
                v.fail({"prop": PROP, "row": ty, "tag": "serde_refuses_value", "composed": True}, {"value": b_value(t, pv["v"]), "error": s})
                continue
            rj = tsparse.json_value(json.loads(s["ok"]))
            if rj == pv["json"]:
                st["json_equal"] += 1
            else:
                st["json_drift"] += 1
                st.setdefault("drift_samples", []).append({"type": ty, "value": b_value(t, pv["v"]), "real_json": s["ok"], "model_json": json.dumps(pv["json"])[:300]})
            acc["records"].append({"kind": "ser", "decls": [], "root": root, "json": rj, "accepted": True, "reser": {"k": "null"}})
            acc["meta"].append((ty, "name", "ser", s["ok"], info["name"]["ok"]))
        if units[len(bindlib.helper_units()) + n].deser and b_depth(t) <= (1 if q else 2) and not b_mentions(t, {"char", "f64"}):
            for wn, w in enumerate(witness.witnesses(root, env, limit=4)):
                wreqs.append(("cw-%d-%d" % (n, wn), "CT%d" % n, json.dumps(w), root, ty, info["name"]["ok"], w))
    res = c.deser([(a_, b_, cc) for a_, b_, cc, *_ in wreqs]) if wreqs else {}
    for wid, uname, js, root, ty, text, w in wreqs:
        r_ = res[wid]
        ok_ = "ok" in r_
        acc["records"].append({"kind": "wit", "decls": [], "root": root, "json": tsparse.json_value(w), "accepted": ok_,
                               "reser": tsparse.json_value(json.loads(r_["ok"])) if ok_ else {"k": "null"}})
        acc["meta"].append((ty, "name", "wit", js, text, r_))
    st["witnesses"] = len(wreqs)
    st["drift_samples"] = st.get("drift_samples", [])[:8]
    return st
