"""C07 - declarations of generic types are parametric and well-scoped.

A family of generic definitions (every way a parameter can be used: bare, in containers, in other
generics, inlined, flattened, optional; several parameters, defaults - also defaults naming another
parameter -, lifetimes, const parameters, concrete(..)) is instantiated at several arguments in a
generated crate.  TLC judges (Trace_Generic.tla) on the parsed real decl()/name(): same declaration
for every argument, exactly the demanded parameter list, no unbound names, name() = ident<arg names>;
and (Trace_Binding.tla) that the generic declaration expanded at the arguments denotes the same type
as decl_concrete() (witnesses both ways)."""
import json
import os
import time

import bindlib
import corpus
import tsparse
import vlib
import witness
from vlib import ToolError, log

PROP = "C07"
NONE = {"k": "none"}

# (label, definition with @ for the name, generics header, [(param, default Rust type or None)], {concrete}, arg lists per instantiation maker)
DEFS = [
    ("bare", "pub struct @<T> { pub a: T }", ["T"], {}),
    ("containers", "pub struct @<T> { pub a: Option<T>, pub b: Vec<T>, pub c: BTreeMap<String, T> }", ["T"], {}),
    ("tuple+array", "pub struct @<T> { pub a: (T, i32), pub b: [T; 2] }", ["T"], {}),
    ("other generic", "pub struct @<T> { pub a: Gen<T>, pub b: Option<Gen<Vec<T>>> }", ["T"], {}),
    ("inline generic", "pub struct @<T> { #[ts(inline)] pub a: Gen<T> }", ["T"], {}),
    ("flatten generic", "pub struct @<T> { #[ts(flatten)] pub a: Gen<T>, pub z: i32 }", ["T"], {}),
    ("optional", "pub struct @<T> { #[ts(optional)] pub a: Option<T>, #[ts(optional = nullable)] pub b: Option<T> }", ["T"], {}),
    ("inline bare", "pub struct @<T> { #[ts(inline)] pub a: T }", ["T"], {}),
    ("two params", "pub struct @<A, B> { pub a: A, pub b: Vec<B>, pub c: BTreeMap<String, (A, B)> }", ["A", "B"], {}),
    ("default", "pub struct @<A, B = i32> { pub a: A, pub b: B }", ["A", ("B", "i32")], {}),
    ("default user type", "pub struct @<A, B = Inner> { pub a: A, pub b: Option<B> }", ["A", ("B", "Inner")], {}),
    ("default names param", "pub struct @<A, B = Vec<A>> { pub a: A, pub b: B }", ["A", ("B", "Vec<A>")], {}),
    ("lifetime", "pub struct @<'a, T: 'static> { pub a: &'a T, pub b: std::borrow::Cow<'a, str> }", ["T"], {"lifetimes": 1}),
    ("const", "pub struct @<T, const N: usize> { pub a: [T; N], pub b: T }", ["T"], {"consts": ["2"]}),
    ("const with default", "pub struct @<T, const N: usize = 2> { pub a: [T; N], pub b: T }", ["T"], {"consts": ["3"]}),
    # the same definition at several values of the const parameter in one process (its declaration depends on the value)
    ("const at several values", "pub struct @<T, const N: usize> { pub a: [T; N], pub b: Option<T> }", ["T"], {"consts_var": [["1"], ["3"], ["2"], ["0"]], "per_value": True}),
    ("concrete", '#[ts(concrete(B = i32))] pub struct @<A, B> { pub a: A, pub b: B }', ["A"], {"concrete": {"B": "i32"}}),
    ("concrete with default", '#[ts(concrete(B = i32))] pub struct @<A, B = u8> { pub a: A, pub b: B }', ["A"], {"concrete": {"B": "i32"}}),
    ("all concrete with default", '#[ts(concrete(T = bool))] pub enum @<T = bool> { A(T), B { x: Vec<T> }, C }', [], {"concrete": {"T": "bool"}}),
    ("concrete in two attributes", '#[ts(concrete(A = i32))] #[ts(concrete(B = String))] pub struct @<C, A, B> { pub a: A, pub b: Vec<B>, pub c: Option<C> }', ["C"], {"concrete": {"A": "i32", "B": "String"}}),
    ("concrete first", '#[ts(concrete(D = Inner))] pub struct @<D, T> { pub meta: D, pub body: Vec<T> }', ["T"], {"concrete": {"D": "Inner"}, "order": ["D", "T"]}),
    ("concrete in the middle", '#[ts(concrete(B = i32))] pub struct @<A, B, C> { pub a: A, pub b: B, pub c: Option<C> }', ["A", "C"], {"concrete": {"B": "i32"}, "order": ["A", "B", "C"]}),
    # the order of the free parameters in name() when another one is concrete
    ("concrete with four free parameters", '#[ts(concrete(X = i32))] pub struct @<A, B, C, D, X> { pub a: A, pub b: Vec<B>, pub c: Option<C>, pub d: (D, X) }', ["A", "B", "C", "D"], {"concrete": {"X": "i32"}}),
    ("concrete between free parameters", '#[ts(concrete(X = i32))] pub struct @<A, X, B, C> { pub a: A, pub b: Vec<B>, pub c: Option<C>, pub x: X }', ["A", "B", "C"], {"concrete": {"X": "i32"}, "order": ["A", "X", "B", "C"]}),
    # a parameter behind a transparent wrapper, under optional_fields (the argument may be an Option)
    ("optional_fields, wrapped parameter", '#[ts(optional_fields)] pub struct @<T> { pub id: i32, pub value: Box<T>, pub list: Vec<T> }', ["T"], {}),
    ("const only", "pub struct @<const N: usize> { pub data: [u8; N], pub n: i32 }", [], {"consts_var": [["1"], ["3"], ["2"], ["0"]], "per_value": True}),
    ("enum", "pub enum @<T> { A(T), B { x: Vec<T> }, C }", ["T"], {}),
    ("enum tagged", '#[ts(tag = "t", content = "c")] pub enum @<T> { A(T), B { x: Option<T> }, C(T, T) }', ["T"], {}),
    ("newtype", "pub struct @<T>(pub T);", ["T"], {}),
    ("tuple struct", "pub struct @<T>(pub T, pub Option<T>);", ["T"], {}),
    ("recursive", "pub struct @<T> { pub v: T, pub next: Option<Box<@<T>>> }", ["T"], {}),
    ("where clause", "pub struct @<T> where T: Clone { pub v: Vec<T> }", ["T"], {}),
    # definitions stamped out by macro_rules!: a `$t:ty` fragment reaches the derive as a None-delimited group
    ("macro ty fragment", "macro_rules! mk_@ { ($t:ty) => { #[derive(TS)] pub struct @<T> { pub items: $t, pub n: i32 } } } mk_@!(Vec<T>);", ["T"], {"raw": True}),
    ("macro bare fragment", "macro_rules! mk_@ { ($t:ty) => { #[derive(TS)] pub struct @<T> { pub item: $t } } } mk_@!(T);", ["T"], {"raw": True}),
    ("macro two fragments", "macro_rules! mk_@ { ($a:ty, $b:ty) => { #[derive(TS)] pub struct @<A, B> { pub a: $a, #[ts(inline)] pub b: $b } } } mk_@!(Option<A>, Gen<B>);", ["A", "B"], {"raw": True}),
    ("macro enum fragment", "macro_rules! mk_@ { ($t:ty) => { #[derive(TS)] pub enum @<T> { A($t), B { x: Option<$t> }, C } } } mk_@!(Vec<T>);", ["T"], {"raw": True}),
    ("type macro field", "macro_rules! ty_@ { ($t:ty) => { Vec<$t> } } #[derive(TS)] pub struct @<T> { pub items: ty_@!(T), pub n: i32 }", ["T"], {"raw": True}),
    ("projection", "#[derive(TS)] pub struct @<T> { pub first: <Vec<T> as IntoIterator>::Item, pub n: i32 }", ["T"], {"raw": True}),
    ("parenthesised", "#[derive(TS)] pub struct @<T> { pub a: (T), pub b: Option<(Vec<T>)> }", ["T"], {"raw": True}),
    ("reference and slice", "#[derive(TS)] pub struct @<T: 'static> { pub a: &'static T, pub b: Box<[T]>, pub c: &'static [T] }", ["T"], {"raw": True}),
]
ARGS = ["i32", "String", "Inner", "Vec<u64>", "Gen<Inner>", "Option<bool>", "[u8; 64]", "(i32, [bool; 3])"]


def build():
    units = bindlib.helper_units()
    plan = []
    for dn, (label, src, params, opts) in enumerate(DEFS):
        base = "G%d" % dn
        nty = len(params) + len(opts.get("concrete", {}))
        insts = []
        for an in range(4):
            # (instantiation an, parameter k: every definition sees a plain type, an Option, a user type and a long array)
            args = [ARGS[([0, 5, 2, 6][an] + 3 * k) % len(ARGS)] for k in range(len(params))] + list(opts.get("concrete", {}).values())
            tyargs = args
            if "order" in opts:      # declaration order of the type parameters when the concrete ones are not the last
                it = iter(args[:len(params)])
                tyargs = [opts["concrete"][n_] if n_ in opts["concrete"] else next(it) for n_ in opts["order"]]
            consts = opts["consts_var"][an % len(opts["consts_var"])] if "consts_var" in opts else opts.get("consts", [])
            full = (["'static"] * opts.get("lifetimes", 0)) + tyargs + consts
            insts.append((args, "%s<%s>" % (base, ", ".join(full))))
        # the definition lives in the shared prelude; each instantiation is one unit (type alias)
        plan.append((base, label, src.replace("@", base), params, opts, insts))
        for k, (args, ty) in enumerate(insts):
            units.append(corpus.Unit("%sI%d" % (base, k), "pub type %sI%d = %s;" % (base, k, ty), [], serde=False, meta={"def": base, "args": args, "group": base}))
    # names of argument types and defaults
    for n, a in enumerate(ARGS + ["Vec<Inner>", "Vec<String>", "Vec<i32>", "Vec<Vec<u64>>", "Vec<Gen<Inner>>", "Vec<Option<bool>>", "Vec<[u8; 64]>", "Vec<(i32, [bool; 3])>"]):
        units.append(corpus.Unit("A%d" % n, "pub type A%d = %s;" % (n, a), [], serde=False, meta={"arg": a}))
    prelude = "\n".join(("" if p[4].get("raw") else "#[derive(TS)] ") + p[2] for p in plan)
    return units, plan, prelude


def run(tier):
    t0 = time.time()
    v = vlib.Verdicts(PROP)
    units, plan, prelude = build()
    c = corpus.Corpus("generics", units, extra_prelude=prelude)
    obs = c.observe()
    if c.rejected:
        raise ToolError("generic corpus does not compile: %s" % json.dumps(c.rejected)[:1500])
    env = bindlib.base_env(obs)
    argname = {}
    for u in units:
        if "arg" in u.meta:
            argname[u.meta["arg"]] = tsparse.strip(tsparse.parse_type(obs[u.name]["info"]["name"]["ok"]))
    recs, rmeta, brecords, bmeta = [], [], [], []
    for base, label, src, params, opts, insts in plan:
        want = []
        for p in params:
            if isinstance(p, tuple):
                d = p[1]
                dast = {"k": "ref", "n": d, "as": []} if d in [q if isinstance(q, str) else q[0] for q in params] else None
                if dast is None:
                    if d.startswith("Vec<") and d[4:-1] in [q if isinstance(q, str) else q[0] for q in params]:
                        dast = {"k": "array", "e": {"k": "ref", "n": d[4:-1], "as": []}}
                    else:
                        dast = argname[d]
                want.append({"name": p[0], "default": dast})
            else:
                want.append({"name": p, "default": NONE})
        irecs = []
        bad_inst = False
        for k, (args, ty) in enumerate(insts):
            info = obs["%sI%d" % (base, k)]["info"]
            if "ok" not in info["decl"] or "ok" not in info["name"]:
                v.fail({"prop": PROP, "definition": label, "tag": "decl_panics", "message": info["decl"].get("panic", info["name"].get("panic", ""))[:60]},
                       {"source": src, "instantiation": ty, "decl": info["decl"], "name": info["name"]})
                bad_inst = True
                continue
            try:
                d = tsparse.parse_decl(info["decl"]["ok"])
                nm = tsparse.strip(tsparse.parse_type(info["name"]["ok"]))
            except tsparse.TsSyntaxError as e:
                v.fail({"prop": PROP, "definition": label, "tag": "does_not_parse"}, {"decl": info["decl"]["ok"], "error": str(e)})
                bad_inst = True
                continue
            drec = {"name": d["name"], "params": [{"name": p["name"], "default": tsparse.strip(p["default"]) if p["default"] else NONE} for p in d["params"]],
                    "body": tsparse.strip(d["body"])}
            nargs = [argname[a] for a in args[:len(params)]]
            irecs.append({"decl": drec, "nameAst": nm, "args": nargs})
            # P5: expansion at the arguments == decl_concrete
            if "ok" in info["decl_concrete"]:
                conc = tsparse.strip(tsparse.parse_decl(info["decl_concrete"]["ok"])["body"])
                gdecl = {"name": drec["name"], "params": [p["name"] for p in drec["params"]], "body": drec["body"]}
                gen_root = {"k": "ref", "n": drec["name"], "as": nargs}
                e2 = dict(env)
                e2[gdecl["name"]] = {"params": gdecl["params"], "body": gdecl["body"]}
                for w in witness.witnesses(gen_root, e2, limit=8):
                    brecords.append({"kind": "ser", "decls": [gdecl], "root": conc, "json": tsparse.json_value(w), "accepted": True, "reser": {"k": "null"}})
                    bmeta.append((label, ty, "generic in concrete", json.dumps(w), info["decl"]["ok"], info["decl_concrete"]["ok"]))
                for w in witness.witnesses(conc, e2, limit=8):
                    brecords.append({"kind": "ser", "decls": [gdecl], "root": gen_root, "json": tsparse.json_value(w), "accepted": True, "reser": {"k": "null"}})
                    bmeta.append((label, ty, "concrete in generic", json.dumps(w), info["decl"]["ok"], info["decl_concrete"]["ok"]))
        if irecs and opts.get("per_value"):
            # the declaration depends on the value of the const parameter: every instantiation is judged on its own
            for k_, ir in enumerate(irecs):
                recs.append({"params": want, "insts": [ir], "known": sorted(env.keys())})
                rmeta.append((label, src, [obs["%sI%d" % (base, k_)]["info"]["decl"].get("ok")], [obs["%sI%d" % (base, k_)]["info"]["name"].get("ok")]))
        elif irecs:
            recs.append({"params": want, "insts": irecs, "known": sorted(env.keys())})
            rmeta.append((label, src, [obs["%sI%d" % (base, k)]["info"]["decl"].get("ok") for k in range(len(insts))],
                          [obs["%sI%d" % (base, k)]["info"]["name"].get("ok") for k in range(len(insts))]))
    tp = os.path.join(vlib.TMP, "generic-trace.ndjson")
    vlib.write_ndjson(tp, recs)
    a = vlib.run_tlc("Trace_Generic", "Trace_Generic.cfg", workers=4, env={"VERIF_TRACE": tp}, timeout=1200,
                     tags=("BADPARAMETRIC", "BADPARAMS", "BADSCOPE", "BADNAME"), metatag="c07a")
    vlib.tlc_must_succeed(a, "Trace_Generic")
    if a.distinct != len(recs) + 1:
        raise ToolError("adjudication judged %d of %d definitions" % (a.distinct - 1, len(recs)))
    for tag in ("BADPARAMETRIC", "BADPARAMS", "BADSCOPE", "BADNAME"):
        for k in sorted(set(a.payloads(tag))):
            label, src, decls, names = rmeta[k - 1]
            v.fail({"prop": PROP, "definition": label, "tag": tag}, {"source": src, "decls": decls, "names": names, "demanded_params": recs[k - 1]["params"]})
    bad, tool, b = bindlib.adjudicate(brecords, env, "c07")
    for i in sorted(bad):
        m = bmeta[i - 1]
        v.fail({"prop": PROP, "definition": m[0], "tag": "expansion_differs_from_concrete", "direction": m[2]},
               {"instantiation": m[1], "witness": m[3], "decl": m[4], "decl_concrete": m[5]})
    rc = v.finish()
    cov = {"states": a.distinct + b.distinct, "transitions": a.generated + b.generated,
           "traces_validated_against_impl": len(recs) + len(brecords),
           "samples": [{"definition": m[0], "decls": m[2][:1], "names": m[3]} for m in rmeta[:6]],
           "definitions": len(DEFS), "instantiations": sum(len(p[5]) for p in plan), "equivalence_witnesses": len(brecords),
           "exhaustive": False,
           "rule": "each generic definition x 4 argument choices from {i32, String, Inner, Vec<u64>, Gen<Inner>, Option<bool>, [u8; 64], (i32, [bool; 3])}; per definition TLC compares the parsed declarations of all instantiations, the parameter list with the demanded one, free names with bound names, name() with ident<arg names>; the generic declaration expanded at the arguments against decl_concrete() on witnesses both ways"}
    vlib.write_evidence(PROP, tier, "model_checking", cov,
                        ["const arguments are held fixed", "definitions are a hand-written family covering every way a parameter can be used (not TLC-enumerated)"],
                        time.time() - t0, len(v.violations))
    return rc


def replay(path):
    print(json.dumps(json.load(open(path)), indent=1)[:3000])
    return 1
