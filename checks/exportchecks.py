"""Slices of the exporter state space and the predict / replay / adjudicate pipeline over them.
Used by c05.py, c06.py, c11.py, c17.py."""
import json
import os
import time

import exportlib
import vlib
from vlib import ToolError, log

TAG_PROP = {
    "C17v_panic": "C17", "C17v_ok_but_blocked": "C17", "C17v_err_but_free": "C17",
    "C11r_missing_file": "C11", "C11r_missing_decl": "C11", "C11x_touched_other": "C11",
    "C05w_malformed": "C05", "C05s_self_import": "C05", "C06l_lost": "C06", "C03i_dangling_import": "C03", "confluence": None,   # confluence: C05 in same-file slices, else C06
}

SAMEFILE = ["Alpha", "Al1", "Al<i32>", "Al2", "AlphaBeta", "Beta", "alpha2"]


def slice_def(u, name, tier):
    """-> dict(calls, follow0, follow, maxlen, init, strict, confl_prop)"""
    q = tier == "quick"
    if name == "samefile":            # C05: every order, every prefix, repetitions (idempotence)
        tys = SAMEFILE + ["Al<Leaf>"]
        calls = [u.call("export", t, "default") for t in tys]
        f0, f = exportlib.free_alphabet(calls)
        return dict(calls=calls, follow0=f0, follow=f, maxlen=4 if q else 5, init="empty", strict=True, confl="C05")
    if name == "samefile_all":        # C05 with dependencies written on the way
        calls = [u.call("export_all", t, "default") for t in ["Al1", "Al<Leaf>", "AlphaBeta", "Beta", "alpha2"]]
        f0, f = exportlib.free_alphabet(calls)
        return dict(calls=calls, follow0=f0, follow=f, maxlen=3 if q else 5, init="empty", strict=True, confl="C05")
    if name == "samefile_abs":        # C05 with an absolute export directory and two spellings of the file in the attributes
        calls = [u.call("export", t, "abs") for t in ["Alpha", "AlD", "Al1", "Beta", "Al2"]] + [u.call("export_all_to", t, "abs") for t in ["AlD", "Al1"]]
        f0, f = exportlib.free_alphabet(calls)
        return dict(calls=calls, follow0=f0, follow=f, maxlen=3 if q else 4, init="empty", strict=True, confl="C05")
    if name == "underscore":          # names that agree up to `_` / `$`, next to names that are prefixes of them
        tys = ["Al_a", "Al_b", "AlDollar", "Al1", "Alpha"] + ([] if q else ["Al<i32>", "Al2"])
        calls = [u.call("export", t, "default") for t in tys] + [u.call("export_all", "Al_b", "default")]
        f0, f = exportlib.free_alphabet(calls)
        return dict(calls=calls, follow0=f0, follow=f, maxlen=3 if q else 4, init="empty", strict=True, confl="C05")
    if name == "otherext":            # a shared file whose name does not end in .ts, with a dependency inside the file
        tys = ["MtsA", "MtsB", "MtsC"]
        calls = [u.call("export", t, "default") for t in tys] + [u.call("export_all", t, "default") for t in ["MtsA", "MtsC"]] + [u.call("export_all_to", "MtsA", "abs")]
        f0, f = exportlib.free_alphabet(calls)
        return dict(calls=calls, follow0=f0, follow=f, maxlen=3 if q else 4, init="empty", strict=True, confl="C05")
    if name == "imports":             # C05: overlapping and disjoint import sets, several names from one other shared file
        tys = ["AlA", "AlB", "AlC", "Al1", "Alpha"] + ([] if q else ["AlphaBeta", "Al<Leaf>"])
        calls = [u.call("export", t, "default") for t in tys] + [u.call("export_all", t, "default") for t in ["AlA", "AlB", "AlC"]]
        f0, f = exportlib.free_alphabet(calls)
        return dict(calls=calls, follow0=f0, follow=f, maxlen=3 if q else 4, init="empty", strict=True, confl="C05")
    if name == "nasty":               # declarations whose text stresses the textual merge
        calls = [u.call("export", t, "default") for t in ["Alpha", "Gamma", "Delta", "Zeta", "Eta", "AlphaBeta", "Beta"]]
        f0, f = exportlib.free_alphabet(calls)
        return dict(calls=calls, follow0=f0, follow=f, maxlen=3 if q else 4, init="empty", strict=True, confl="C05")
    if name == "hist":                # C06: entry points x spellings x order
        calls = []
        tys = ["Alpha", "AlphaBeta", "Root", "Wrap<Leaf>"] if q else ["Alpha", "AlphaBeta", "Root", "Wrap<Leaf>", "Wrap<Alpha>", "Esc"]
        sp = ["default", "abs"]
        for t in tys:
            for e in ("export", "export_all", "export_all_to"):
                for s in sp:
                    if q and e == "export_all_to" and s == "default":
                        continue        # same code path as export_all with the default directory
                    calls.append(u.call(e, t, s))
        f0, f = exportlib.free_alphabet(calls)
        return dict(calls=calls, follow0=f0, follow=f, maxlen=3, init="empty", strict=True, confl="C06")
    if name == "spell":               # C06: all spellings of the directory, two calls
        calls = []
        for t in ["Alpha", "Al1", "Mid", "AlD"]:
            for e in ("export", "export_all", "export_all_to"):
                for s in ("default", "plain", "dotslash/", "abs", "dotdot", "other", "cd2", "cd2_plain"):
                    calls.append(u.call(e, t, s))
        f0, f = exportlib.free_alphabet(calls)
        return dict(calls=calls, follow0=f0, follow=f, maxlen=2 if q else 3, init="empty", strict=True, confl="C06")
    if name == "stale":               # C06 / C11: stale and unrelated content beforehand
        calls = []
        for t in ["Alpha", "Al1", "Root", "Esc", "Wrap<Alpha>", "Other", "Pair"]:
            for e in ("export", "export_all", "export_all_to"):
                calls.append(u.call(e, t, "default"))
        f0, f = exportlib.free_alphabet(calls)
        return dict(calls=calls, follow0=f0, follow=f, maxlen=2 if q else 3, init="stale", strict=True, confl="C06")
    if name == "casepaths":           # C06: locations that differ only in letter case are different locations
        tys = ["TwinUp", "TwinLow", "TwinDir"]
        calls = [u.call("export", t, "default") for t in tys] + [u.call("export_all", "TwinLow", "default"), u.call("export_all_to", "TwinUp", "abs")]
        f0, f = exportlib.free_alphabet(calls)
        return dict(calls=calls, follow0=f0, follow=f, maxlen=3, init="stale", strict=True, confl="C06")
    if name == "prev":                # C06: the directory a previous process left behind
        return prev_slice(u, tier)
    if name == "faults":              # C17: one obstacle before one call, removed, call retried
        return fault_slice(u, tier)
    raise ToolError("unknown slice " + name)


def prev_slice(u, tier):
    """histories  <one or two calls>  restart  <one or two calls>: the second process finds what the first one wrote
    (a shared file holding some of its types, files of types it will not export, ..)"""
    q = tier == "quick"
    c = lambda e, t: u.call(e, t, "default")
    p1 = [c("export", "Alpha"), c("export", "Al1"), c("export_all", "AlphaBeta"), c("export_all", "Root"), c("export", "Beta")]
    p2 = [c("export", "Alpha"), c("export", "Al1"), c("export", "Al2"), c("export_all", "AlphaBeta"), c("export", "Beta"), c("export_all", "Root")]
    if not q:
        p1 += [c("export_all", "Pair"), c("export", "Gamma")]
        p2 += [c("export", "alpha2"), c("export_all", "Pair"), c("export", "Gamma"), c("export_all", "Wrap<Alpha>")]
    calls, follow = [], []
    def add(cs_):
        idx = []
        for x in cs_:
            calls.append(dict(x)); follow.append(None); idx.append(len(calls))
        return idx
    a1, a2 = add(p1), add(p1)
    calls.append(u.restart_step()); follow.append(None); r = len(calls)
    b1, b2 = add(p2), add(p2)
    b3 = add(p2) if not q else []
    for i in a1:
        follow[i - 1] = a2 + [r]
    for i in a2:
        follow[i - 1] = [r]
    follow[r - 1] = b1
    for i in b1:
        follow[i - 1] = b2
    for i in b2:
        follow[i - 1] = b3
    for i in b3:
        follow[i - 1] = []
    return dict(calls=calls, follow0=a1 + [r], follow=follow, maxlen=6, init="empty", strict=True, confl="C06", sha_of_done_only=True)


def fault_slice(u, tier):
    """histories  [pre call]  put-obstacle, blocked call (fails), remove obstacle, same call (retry)  [post call]
    and  [self-failing call] [post call]."""
    q = tier == "quick"
    ents = ("export", "export_all") if q else ("export", "export_all", "export_all_to")
    pre = [u.call("export_all", "Leaf", "default"), u.call("export", "Wrap<Alpha>", "default"), u.call("export_all", "Esc", "default"),
           u.call("export_all", "Alpha", "default")]
    if not q:
        pre += [u.call("export", "Other", "default")]
    post = [u.call("export_all", "Alpha", "default"), u.call("export_all", "Root", "default"), u.call("export", "Al1", "default"),
            u.call("export_all", "Wrap<Leaf>", "default")]
    selffail = [u.call("export", "i32", "default"), u.call("export_all", "Vec<Alpha>", "default"),
                u.call("export_all", "TooHigh", "default"), u.call("export", "TooHigh", "default"),
                u.call("export_all", "UsesHigh", "default"), u.call("export_all_to", "TooHigh", "abs"),
                u.call("export_all", "ViaHigh", "default"), u.call("export_all_to", "ViaHigh", "abs"),
                u.call("export", "HighExisting", "default"), u.call("export_all_to", "HighExisting", "abs")]
    calls, follow = [], []
    pre_idx, post_idx, self_idx, put_idx = [], [], [], []
    for c in pre:
        calls.append(c); follow.append(None); pre_idx.append(len(calls))
    for c in post:
        calls.append(c); follow.append([]); post_idx.append(len(calls))
    for c in selffail:
        calls.append(c); follow.append(list(post_idx)); self_idx.append(len(calls))
    obstacles = [
        ("putdir", "bindings/shared.ts"),          # the target is a directory
        ("putfile", "bindings/sub"),               # a parent component is a regular file
        ("putdir", "bindings/sub/Leaf.ts"),
        ("putfile", "bindings"),                   # the export directory itself is a regular file
        ("putdir", "bindings/Root.ts"),
        ("putdir", "bindings/sub/deep/Other.ts"),
    ]
    tys = ["Alpha", "Al1", "Root", "Mid"] if q else ["Alpha", "Al1", "AlphaBeta", "Root", "Mid", "Wrap<Leaf>", "Other"]
    for kind, rel in obstacles:
        for t in tys:
            for e in ents:
                b = u.call(e, t, "default")
                if not touches(u, b, rel):
                    continue
                if e == "export" and not first_target_blocked(u, t, rel):
                    continue
                i_put = len(calls) + 1
                calls += [u.fs_step(kind, rel), dict(b), u.fs_step("rm", rel), dict(b)]
                follow += [[i_put + 1], [i_put + 2], [i_put + 3], list(post_idx)]
                put_idx.append(i_put)
    # a shared file that already holds a declaration is replaced by a directory while another type is exported
    # into it, put back, and the export repeated (the guard of the model: only an existing file is moved aside)
    for t in (["Al1", "Al2", "Beta"] if q else ["Al1", "Al2", "Beta", "AlphaBeta", "alpha2", "Al<i32>"]):
        for e in ents:
            b = u.call(e, t, "default")
            i_put = len(calls) + 1
            calls += [u.fs_step("swapout", "bindings/shared.ts"), dict(b), u.fs_step("swapin", "bindings/shared.ts"), dict(b)]
            follow += [[i_put + 1], [i_put + 2], [i_put + 3], list(post_idx)]
            put_idx.append(i_put)
    for i in pre_idx:
        follow[i - 1] = list(put_idx) + list(self_idx)
    follow0 = pre_idx + put_idx + self_idx
    return dict(calls=calls, follow0=follow0, follow=follow, maxlen=6, init="empty", strict=True, confl="C06")


def closure(u, call):
    if call["entry"] == "export":
        return [call["ty"]]
    seen, todo = [], [call["ty"]]
    while todo:
        n = todo.pop()
        if n in seen:
            continue
        seen.append(n)
        for v in u.types[n]["visits"]:
            todo.append(v)
    return seen


def loc_rel(u, ty):
    return os.path.normpath("bindings/" + u.types[ty]["out_s"]) if u.types[ty]["exportable"] else None


def touches(u, call, rel):
    """does the call (default directory) write at or below/above the obstacle location?"""
    for n in closure(u, call):
        l = loc_rel(u, n)
        if l is None:
            continue
        if l == rel or l.startswith(rel + "/") or rel.startswith(l + "/"):
            return True
    return False


def first_target_blocked(u, ty, rel):
    l = loc_rel(u, ty)
    return l is not None and (l == rel or l.startswith(rel + "/"))


def run_slice(name, tier, stats):
    """-> list of dict(hid, steps, bad:[{step,tag}], pred_equal, model_bad, key, sha) ; updates stats"""
    t0 = time.time()
    u = exportlib.Universe()
    try:
        sd = slice_def(u, name, tier)
        const = os.path.join(vlib.TMP, "export-const-%s-%d.json" % (name, os.getpid()))
        u.write_constants(const, sd["calls"], sd["follow0"], sd["follow"], sd["init"])
        d = json.load(open(const))
        d["maxlen"] = sd["maxlen"]
        json.dump(d, open(const, "w"))
        # PREDICT
        r = vlib.run_tlc("MC_ExportHist", "MC_ExportHist_%s.cfg" % ("strict" if sd["strict"] else "report"),
                         workers=12, timeout=3000, env={"VERIF_UNIVERSE": const}, tags=("CASE", "MBAD"),
                         metatag="eh-" + name, coverage=False)
        model_violated = None
        if r.violated and sd["strict"]:
            # the model (whose constants are measured from the real types) breaks the property: enumerate the
            # whole slice anyway (verdicts travel with the cases) so that the real code is replayed on all of it
            model_violated = r.violated
            log("NOTE slice %s: TLC reports model invariant %s violated; enumerating the slice in report mode" % (name, r.violated))
            r = vlib.run_tlc("MC_ExportHist", "MC_ExportHist_report.cfg", workers=12, timeout=3000, env={"VERIF_UNIVERSE": const},
                             tags=("CASE", "MBAD"), metatag="ehr-" + name)
            vlib.tlc_must_succeed(r, "MC_ExportHist (report) " + name)
        elif r.rc != 0 or r.error:
            vlib.tlc_must_succeed(r, "MC_ExportHist " + name)
        cases = r.payloads("CASE")
        if not cases and not model_violated:
            raise ToolError("slice %s produced no histories" % name)
        stats["states"] = stats.get("states", 0) + r.distinct
        stats["transitions"] = stats.get("transitions", 0) + r.generated
        mbad = {tuple(m["hist"]): m["verdict"] for m in r.payloads("MBAD")}
        model_cases = []
        for n, c in enumerate(cases):
            steps = [sd["calls"][i - 1] for i in c["hist"]]
            model_cases.append({"hid": n, "hist": c["hist"], "steps": steps, "pred_rets": c["rets"], "pred_files": c["files"]})
        # REPLAY
        hs = [exportlib.harness_history(u, c["hid"], c["steps"], sd["init"]) for c in model_cases]
        obs, blobs = exportlib.replay(u, hs, name)
        # ADJUDICATE (pass 1)
        outs = exportlib.adjudicate(u, const, model_cases, obs, blobs, sd["init"], name, stats)
        results = []
        for c in model_cases:
            o = outs[c["hid"]]
            ob = obs[c["hid"]]
            mb = None
            for k in range(1, len(c["hist"]) + 1):
                if tuple(c["hist"][:k]) in mbad:
                    mb = mbad[tuple(c["hist"][:k])]
                    break
            key = sd["init"] + "|" + json.dumps(sorted(("/".join("".join(x) for x in d_["path"]), d_["ident"]) for d_ in o["done"]))
            final = ob["steps"][-1]["tree"]
            if sd.get("sha_of_done_only"):
                # what an earlier process left behind stays: compare the files the exported types live in
                root = "/".join(u.model_root) + "/"
                donep = {"/".join("".join(x) for x in d_["path"]) for d_ in o["done"]}
                final_cmp = {p_: b_ for p_, b_ in final.items() if root + p_ in donep}
            else:
                final_cmp = final
            results.append({"hid": c["hid"], "slice": name, "steps": c["steps"], "bad": o["bad"], "pred_equal": o["pred_equal"],
                            "model_bad": mb, "key": key, "sha": exportlib.tree_sha(final_cmp),
                            "rets": [s["ret"] for s in ob["steps"]], "pred_rets": c["pred_rets"],
                            "final_tree": ob["steps"][-1]["tree"], "blobs": None})
        for r_, c in zip(results, model_cases):
            if obs[c["hid"]].get("cut") and not r_["bad"]:
                raise ToolError("history %s: %s, and nothing before that step deviates from the specification" % (describe_steps(c["steps"]), obs[c["hid"]]["cut"]))
        # ADJUDICATE (pass 2): confluence over histories without other failures
        good = sorted([r_ for r_ in results if not r_["bad"]], key=lambda r_: (r_["key"], r_["sha"]))
        if good:
            cpath = os.path.join(vlib.TMP, "confl-%s.ndjson" % name)
            vlib.write_ndjson(cpath, [{"key": g["key"], "sha": g["sha"], "hid": g["hid"]} for g in good])
            a = vlib.run_tlc("Trace_Confluence", "Trace_Confluence.cfg", workers=8, timeout=1200,
                             env={"VERIF_TRACE": cpath}, tags=("BAD",), metatag="tc-" + name)
            vlib.tlc_must_succeed(a, "Trace_Confluence " + name)
            if a.distinct != len(good) + 1:
                raise ToolError("confluence pass judged %d of %d records" % (a.distinct, len(good)))
            for i in a.payloads("BAD"):
                g, prev = good[i - 1], good[i - 2]
                g["bad"] = g["bad"] + [{"step": len(g["steps"]), "tag": "confluence", "other": describe_steps(prev["steps"])}]
            os.remove(cpath)
            stats["distinct_done_sets"] = stats.get("distinct_done_sets", 0) + len({g["key"] for g in good})
        for r_ in results:
            r_["confl"] = sd["confl"]
            r_["blob_texts"] = {b: blobs[b] for b in r_["final_tree"].values() if b in blobs} if r_["bad"] else None
        stats.setdefault("slices", {})[name] = {"histories": len(results), "maxlen": sd["maxlen"], "alphabet": len(sd["calls"]),
                                                "init": sd["init"], "tlc_states": r.distinct, "wall_s": round(time.time() - t0, 1),
                                                "pred_equal": sum(1 for x in results if x["pred_equal"]),
                                                "model_invariant_violated": model_violated}
        os.remove(const)
        if model_violated:
            stats.setdefault("model_violations", []).append({"slice": name, "invariant": model_violated})
        if u.ident_clash:
            stats.setdefault("ident_clash", []).extend(u.ident_clash)
        return results
    finally:
        u.cleanup()


def describe_steps(steps):
    out = []
    for s in steps:
        if s["op"] == "call":
            out.append("%s(%s)@%s" % (s["entry"], s["ty"], s["spelling"]))
        else:
            out.append("%s(%s)" % (s["op"], s["path_s"]))
    return "; ".join(out)


def prop_of(tag, confl, slice_name=None):
    """the properties a verdict tag belongs to: a declaration lost or torn inside a shared file is both
    a lossless-merge (C05) and a never-lost (C06) matter"""
    if TAG_PROP[tag] is None:
        return {confl, "C06"}          # the same exported set, different bytes: order dependence wherever it shows
    ps = {TAG_PROP[tag]}
    if tag == "C06l_lost" and confl == "C05":
        ps.add("C05")
    if tag == "C05w_malformed":
        ps.add("C06")
    if slice_name == "faults" and tag in ("C11r_missing_file", "C11r_missing_decl", "C06l_lost"):
        ps.add("C17")      # "a failed export is not recorded as done": the repeated export is complete
    if slice_name == "faults" and tag == "C11x_touched_other":
        ps.add("C17")      # "leaves every other file untouched", "the same directory contents as if the failure had never happened"
    if slice_name == "faults" and tag in ("C11r_missing_decl", "C06l_lost", "C05w_malformed"):
        ps.add("C05")      # lossless merge: also when an export into the shared file failed and was repeated
    return ps


def types_in(steps):
    return sorted({s["ty"] for s in steps if s["op"] == "call"})


def run_property(prop, slices, tier, level="model_checking", extra_assumptions=(), extra_stage=None):
    t0 = time.time()
    v = vlib.Verdicts(prop)
    stats = {}
    samples = []
    total = 0
    others = {}
    for name in slices:
        res = run_slice(name, tier, stats)
        total += len(res)
        for r in res[:: max(1, len(res) // 3)][:3]:
            samples.append({"slice": name, "history": describe_steps(r["steps"]), "returns": r["rets"], "verdicts": r["bad"]})
        for r in res:
            for b in r["bad"]:
                ps = prop_of(b["tag"], r["confl"], name)
                if prop not in ps:
                    for p in ps:
                        others[p] = others.get(p, 0) + 1
                    continue
                st = r["steps"][b["step"] - 1] if b["step"] <= len(r["steps"]) else {}
                desc = {"prop": prop, "slice": name, "tag": b["tag"], "history": describe_steps(r["steps"]),
                        "step": b["step"], "types": types_in(r["steps"]),
                        "step_type": st.get("ty"), "step_entry": st.get("entry"), "ret": r["rets"][b["step"] - 1]}
                v.fail(desc, {"steps": r["steps"], "returns": r["rets"], "predicted_returns": r["pred_rets"],
                              "final_tree": r["final_tree"], "files": r["blob_texts"], "other": b.get("other"),
                              "model_verdict": r["model_bad"]})
            if r["model_bad"] and not r["bad"]:
                pass  # model pessimism is reported in aggregate below
    if extra_stage:
        extra_stage(tier, v, stats, vlib.seed())
    for mv in [m for m in stats.get("model_violations", []) if "slice" in m]:
        v.note("model verdict: invariant %s is violated on the model in slice %s (TLC counterexample); see replayed cases for the real code" % (mv["invariant"], mv["slice"]))
    for p, n in sorted(others.items()):
        v.note("%d verdict(s) of property %s seen in these slices are reported by that property's own check" % (n, p))
    if stats.get("ident_clash"):
        v.note("instantiations of one generic type render different text: %s" % stats["ident_clash"])
    rc = v.finish()
    cov = {"states": stats.get("states", 0), "transitions": stats.get("transitions", 0),
           "traces_validated_against_impl": stats.get("adjudicated", 0) + stats.get("thread_runs", 0) + (1 if stats.get("repo_tests_events_validated") else 0),
           "samples": samples, "histories_replayed": total,
           "distinct_exported_sets_compared": stats.get("distinct_done_sets", 0),
           "slices": stats.get("slices", {}),
           "threads": {k: stats[k] for k in stats if k.startswith("thread_") or k == "action_coverage"},
           "repository_tests": {k: stats[k] for k in stats if k.startswith("repo_tests_")},
           "exhaustive": True,
           "rule": "per slice: every sequence of steps over the slice's alphabet up to its length bound is one TLC behaviour (MC_ExportHist.tla); each is replayed through the real entry points in a fresh directory with a reset registry; TLC (Trace_Export.tla) steps the abstract specification along the observed history and evaluates the property on the real trees; Trace_Confluence.tla compares final bytes of histories that reached the same exported set"}
    vlib.write_evidence(prop, tier, level, cov,
                        ["the universe of types is harness/rt/src/universe.rs; its constants are measured from the real types on every run",
                         "file text is cut into header/blocks by lib/textabs.py exactly where fn merge cuts it; all verdicts are computed by TLC",
                         "no symlinks; nobody else writes to the sandbox during a history"] + list(extra_assumptions),
                        time.time() - t0, len(v.violations))
    return rc
