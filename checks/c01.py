"""C01 - serialized values inhabit the generated TypeScript type.

PREDICT    Programs.tla enumerates every program of each slice (enum representation x variant shape x
           attributes x field types; struct shapes x field attributes x container attributes; nesting
           through helper types and generics) that serde_derive and ts-rs accept.
REPLAY     each program becomes a real item deriving TS + Serialize + Deserialize in a generated,
           sharded crate built against /repo's working tree; its real decl()/name() and the real
           serde_json output of generated values are recorded.
ADJUDICATE Trace_Binding.tla: Inhabits(json_real, type_real, declarations_real) by TsTypes.tla."""
import json
import os
import time

import bindlib
import corpus
import derivelib
import tsparse
import vlib
from vlib import ToolError, log

PROP = "C01"


# hand-written additions to the generated programs: types generic over const parameters only, at several values in
# one process (their definition depends on the value; serde has no impl for [T; N], hence serialize_with)
EXTRA_PRELUDE = ("pub fn ser_arr<S: serde::Serializer, const N: usize>(a: &[u8; N], s: S) -> Result<S::Ok, S::Error> { s.collect_seq(a.iter()) } "
                 "#[derive(TS, Serialize)] pub struct CBlock<const N: usize> { #[serde(serialize_with = \"ser_arr\")] pub data: [u8; N], pub n: i32 } "
                 "#[derive(TS, Serialize)] #[serde(tag = \"kind\")] pub enum CFrame<const N: usize> { Data { #[serde(serialize_with = \"ser_arr\")] payload: [u8; N] }, Eof } "
                 "#[derive(TS, Serialize)] pub struct CUses { #[ts(inline)] pub a: CBlock<1>, #[ts(inline)] pub b: CBlock<3>, #[serde(flatten)] pub c: CBlock<2> }")  # (never by name: the name does not say which N)
EXTRAS = [("CB2", "CBlock<2>", ["CBlock::<2> { data: [1, 2], n: 0 }"]), ("CB4", "CBlock<4>", ["CBlock::<4> { data: [1, 2, 3, 4], n: 1 }"]),
          ("CB0", "CBlock<0>", ["CBlock::<0> { data: [], n: 2 }"]),
          ("CF1", "CFrame<1>", ["CFrame::<1>::Data { payload: [7] }", "CFrame::<1>::Eof"]), ("CF3", "CFrame<3>", ["CFrame::<3>::Data { payload: [7, 8, 9] }"]),
          ("CU", "CUses", ["CUses { a: CBlock::<1> { data: [1], n: 0 }, b: CBlock::<3> { data: [1, 2, 3], n: 1 }, c: CBlock::<2> { data: [5, 6], n: 2 } }"])]


def extra_units():
    return [corpus.Unit(n, "pub type %s = %s;" % (n, ty), vals, serde=True, deser=False, meta={"extra": ty, "group": "CBlock", "slice": "extra"}) for n, ty, vals in EXTRAS]


def build_units(tier):
    dcfg = os.path.join(vlib.TMP, "derive-cfg.json")
    derivelib.build_config(dcfg)
    progs, st = bindlib.enumerate_programs(tier, derive_cfg=dcfg)
    # TLC's enumeration order is not fixed: name the programs by their content so that the corpus (and its cache) is stable
    progs.sort(key=lambda x: (x[0], json.dumps(x[1], sort_keys=True)))
    units = bindlib.helper_units()
    for n, (sl, p, pred) in enumerate(progs):
        u = corpus.render_program(p, "P%d" % n)
        u.meta["slice"] = sl
        u.meta["pred"] = pred
        units.append(u)
    units += extra_units()
    return units, st


def observe(tier):
    units, st = build_units(tier)
    c = corpus.Corpus("bind-" + tier, units, extra_prelude=EXTRA_PRELUDE)
    obs = c.observe()
    return units, obs, c, st


def run(tier):
    t0 = time.time()
    v = vlib.Verdicts(PROP)
    units, obs, c, st = observe(tier)
    env = bindlib.base_env(obs)
    records, meta = [], []
    counts = {"programs": 0, "rejected_at_compile_time": len(c.rejected), "decl_panics": 0, "decl_unparsable": 0,
              "ser_errors": 0, "values_adjudicated": 0}
    for u in units:
        if ("prog" not in u.meta and "extra" not in u.meta) or u.name in c.rejected:
            continue
        o = obs.get(u.name)
        if o is None:
            continue
        counts["programs"] += 1
        info = o["info"]
        if "ok" not in info["decl"] or "ok" not in info["name"]:
            counts["decl_panics"] += 1
            d = descriptor(u)
            d["tag"] = "no_declaration_decl_panics"
            d["message"] = (info["decl"].get("panic") or info["name"].get("panic") or "")[:50]
            v.fail(d, {"item": u.src, "decl": info["decl"], "name": info["name"]})
            continue
        try:
            decl = bindlib.decl_record(info["decl"]["ok"])
            root = tsparse.strip(tsparse.parse_type(info["name"]["ok"]))
        except tsparse.TsSyntaxError:
            counts["decl_unparsable"] += 1        # a C04 matter; membership in a type that does not parse is undefined
            continue
        for k, s in enumerate(o["samples"]):
            if "ok" not in s:
                counts["ser_errors"] += 1          # serde itself refuses the value: no JSON, outside the quantifier
                continue
            records.append({"kind": "ser", "decls": [decl], "root": root, "json": tsparse.json_value(json.loads(s["ok"])),
                            "accepted": True, "reser": {"k": "null"}})
            meta.append((u, k, s["ok"], info["decl"]["ok"]))
    counts["values_adjudicated"] = len(records)
    conf = model_conformance(units, obs, c)
    bad, tool, a = bindlib.adjudicate(records, env, "c01")
    real_bad_units = {meta[i - 1][0].name for i in bad}
    pess = [u for u in units if u.meta.get("pred") and not u.meta["pred"]["model_ok"] and u.name in conf["compared"] and u.name not in real_bad_units]
    if pess:
        v.note("model pessimism: for %d programs Derive.tla predicts a C01 violation that the real code does not show (e.g. %s)" % (len(pess), pess[0].src[:160]))
    conf["model_says_violation"] = sum(1 for u in units if u.meta.get("pred") and not u.meta["pred"]["model_ok"])
    conf["model_violation_confirmed_by_real_code"] = sum(1 for u in units if u.meta.get("pred") and not u.meta["pred"]["model_ok"] and u.name in real_bad_units)
    conf["real_violation_not_predicted"] = sum(1 for n in real_bad_units if any(u.name == n and u.meta.get("pred") and u.meta["pred"]["model_ok"] for u in units))
    del conf["compared"]
    for i in sorted(bad):
        u, k, js, decl = meta[i - 1]
        d = descriptor(u)
        d["json_kind"] = classify_json(js)
        d.update(hints(u.meta.get("prog"), js, decl))
        v.fail(d, {"item": u.src, "value": u.samples[k] if k < len(u.samples) else None, "json": js, "decl": decl})
    rc = v.finish()
    samples = [{"item": m[0].src[:200], "json": m[2], "decl": m[3][:200]} for m in meta[:: max(1, len(meta) // 6)][:6]]
    cov = {"states": st["states"] + a.distinct, "transitions": st["transitions"] + a.generated,
           "traces_validated_against_impl": len(records), "samples": samples, "programs_by_slice": st["by_slice"],
           "exhaustive": True, "corpus_build_s": round(c.build_s, 1), "corpus_cached": getattr(c, "cached", False),
           "rule": "every well-formed program of each slice of Programs.tla (see bindlib.program_slices) x up to 3 generated values per struct / per variant; one record per (program, value); membership judged by TLC"}
    cov.update(counts)
    cov["model_conformance"] = conf
    if conf["ts_drift"] or conf["json_drift"]:
        v.note("drift: Derive.tla predicts another type for %d programs and another JSON for %d values (samples in the evidence); the verdicts above are computed on the real output" % (conf["ts_drift"], conf["json_drift"]))
    vlib.write_evidence(PROP, tier, "model_checking", cov,
                        ["leaf values are small and finite (no NaN/inf, integers within 32 bits)",
                         "programs the compile-time domain check lets through but rustc/serde_derive/ts-rs reject are excluded and counted",
                         "the TypeScript parser (lib/tsparse.py) is trusted to read the declarations; unreadable declarations are C04's business"],
                        time.time() - t0, len(v.violations))
    return rc


def descriptor(u):
    if "extra" in u.meta:
        return {"prop": PROP, "slice": "extra", "type": u.meta["extra"]}
    return bindlib.prog_descriptor(PROP, u.meta["slice"], u.meta["prog"])


def optional_keys(t, out):
    """keys declared optional (`key?:`) anywhere in a type AST"""
    k = t["k"]
    if k == "obj":
        for m in t["ms"]:
            if m["opt"]:
                out.add(m["key"])
            optional_keys(m["ty"], out)
        for x in t["idx"]:
            optional_keys(x["vty"], out)
    elif k in ("union", "inter"):
        for x in t["ts"]:
            optional_keys(x, out)
    elif k == "array":
        optional_keys(t["e"], out)
    elif k == "tuple":
        for x in t["es"]:
            optional_keys(x, out)
    elif k == "ref":
        for x in t["as"]:
            optional_keys(x, out)
    return out


def null_keys(j, out):
    if isinstance(j, dict):
        for k, x in j.items():
            if x is None:
                out.add(k)
            null_keys(x, out)
    elif isinstance(j, list):
        for x in j:
            null_keys(x, out)
    return out


def hints(prog, js, decl_text):
    """facts about the failing sample that known-finding signatures can refer to (descriptive only)"""
    j = json.loads(js)
    body = tsparse.strip(tsparse.parse_decl(decl_text)["body"])
    nk = null_keys(j, set())
    return {"optional_member_is_null": bool(optional_keys(body, set()) & nk),
            "null_valued_keys": sorted(nk)}


def model_conformance(units, obs, c):
    """how far the real derive / serde agree with Derive.tla (prediction = real)"""
    out = {"programs_compared": 0, "ts_equal": 0, "ts_drift": 0, "values_compared": 0, "json_equal": 0, "json_drift": 0,
           "drift_samples": [], "compared": set()}
    for u in units:
        pred = u.meta.get("pred")
        if not pred or u.name in c.rejected or u.name not in obs:
            continue
        info = obs[u.name]["info"]
        if "ok" not in info["decl"]:
            continue
        try:
            d = tsparse.parse_decl(info["decl"]["ok"])
        except tsparse.TsSyntaxError:
            continue
        out["programs_compared"] += 1
        out["compared"].add(u.name)
        rname = u.name + ("G" if u.meta["prog"].get("garg") else "")
        real = derivelib.norm(derivelib.rename_self(tsparse.strip(d["body"]), rname))
        model = derivelib.norm(pred["ts"])
        if real == model and [p_["name"] for p_ in d["params"]] == pred.get("params", []):
            out["ts_equal"] += 1
        else:
            out["ts_drift"] += 1
            if len(out["drift_samples"]) < 8:
                out["drift_samples"].append({"item": u.src[60:260], "real_decl": info["decl"]["ok"], "model": json.dumps(model)[:400]})
        # values: the renderer lists Lead first, then every non-skipped variant, k = 1..; structs k = 1..
        order = sorted(pred["values"], key=lambda x: (x["variant"], x["k"]))
        for pv, s_ in zip(order, obs[u.name]["samples"]):
            out["values_compared"] += 1
            if "ok" in s_:
                rj = derivelib.rename_self(tsparse.json_value(json.loads(s_["ok"])), rname)
                same = rj == pv["json"]
            else:
                same = pv["json"].get("k") == "error"
            if same:
                out["json_equal"] += 1
            else:
                out["json_drift"] += 1
                if len(out["drift_samples"]) < 8:
                    out["drift_samples"].append({"item": u.src[60:260], "real_json": s_, "model_json": json.dumps(pv["json"])[:300]})
    return out


def classify_json(js):
    j = json.loads(js)
    if j is None:
        return "null"
    if isinstance(j, dict):
        return "object"
    if isinstance(j, list):
        return "array"
    return type(j).__name__


def replay(path):
    print(json.dumps(json.load(open(path)), indent=1)[:4000])
    return 1
