"""C16 - the derive is total: no panics; conflicts are diagnosed; the rest compiles.

PREDICT    MC_Attrs.tla grows items (struct / enum shapes x subsets of attribute keys at container,
           variant and field level, valid and invalid values, ts and serde spellings) and emits each
           with the outcome predicted by the transcription of the attribute code (Attrs.tla) and with
           what the property demands (Documented).
REPLAY     every item is rendered to Rust source and pushed through the real derive in-process
           (macro driver, catch_unwind); accepted items without serde attributes are compiled by
           rustc in generated probe crates (expected-to-compile and expected-IsOption-error apart).
ADJUDICATE Trace_Attrs.tla: never PANIC; Documented => diagnosed; accepted and not documented =>
           compiles (or fails with the IsOption diagnostic exactly when `optional` sits on a non-Option).
The case-conversion panics (identifier x rule) are adjudicated with the C09 machinery."""
import json
import os
import random
import shutil
import subprocess
import time

import c09
import macrodrv
import vlib
from vlib import ToolError, log

PROP = "C16"


def A(ns, key, val="ok"):
    return {"ns": ns, "key": key, "val": val}


def palettes(tier):
    q = tier == "quick"
    struct = [A("ts", "rename"), A("ts", "rename_all"), A("ts", "tag"), A("ts", "as"), A("ts", "type"), A("ts", "optional_fields"),
              A("ts", "export_to"), A("ts", "rename_all", "bad"), A("ts", "tag", "bad"), A("ts", "bogus"),
              A("serde", "rename_all"), A("serde", "tag"), A("serde", "default"), A("serde", "other")]
    enum = [A("ts", "rename_all"), A("ts", "rename_all_fields"), A("ts", "tag"), A("ts", "content"), A("ts", "untagged"), A("ts", "as"),
            A("ts", "type"), A("ts", "bogus"), A("serde", "tag"), A("serde", "content"), A("serde", "untagged")]
    variant = [A("ts", "as"), A("ts", "type"), A("ts", "rename"), A("ts", "rename_all"), A("ts", "inline"), A("ts", "skip"),
               A("ts", "untagged"), A("ts", "bogus"), A("ts", "skip", "bad"), A("serde", "rename_all"), A("serde", "skip"), A("serde", "untagged")]
    field = [A("ts", "as"), A("ts", "type"), A("ts", "rename"), A("ts", "inline"), A("ts", "skip"), A("ts", "optional"), A("ts", "flatten"),
             A("ts", "optional", "bad"), A("ts", "skip", "bad"), A("ts", "rename", "bad"), A("ts", "bogus"),
             A("serde", "rename"), A("serde", "skip"), A("serde", "flatten"), A("serde", "with"), A("serde", "default"), A("serde", "alias")]
    return {"struct": struct, "enum": enum, "variant": variant, "field": field}


OK_FORM = {
    "rename": 'rename = "renamed"', "rename_all": 'rename_all = "camelCase"', "rename_all_fields": 'rename_all_fields = "camelCase"',
    "tag": 'tag = "t"', "content": 'content = "c"', "untagged": "untagged", "as": 'as = "Inner"', "type": 'type = "string"',
    "optional_fields": "optional_fields", "export_to": 'export_to = "probe/"', "inline": "inline", "skip": "skip",
    "optional": "optional", "flatten": "flatten", "default": "default", "with": 'with = "m"', "alias": 'alias = "x"', "other": "other",
    "bogus": "bogus",
}
BAD_FORM = {"rename_all": 'rename_all = "nope"', "tag": "tag = 3", "optional": "optional = bogus", "skip": "skip = true",
            "rename": "rename = 3", "type": "type = 3", "as": 'as = "(("'}


def attr_src(a):
    form = OK_FORM[a["key"]] if a["val"] == "ok" else BAD_FORM[a["key"]]
    return "#[%s(%s)]" % (a["ns"], form)


FTY = {"i32": "i32", "opt": "Option<i32>", "inner": "Inner"}


# generics: (parameter list, where clause, type of the extra field that uses the parameter)
GENS = {"none": ("", "", None), "type": ("<T>", "", "T"), "bounded": ("<T: Clone + std::fmt::Debug>", "", "Vec<T>"),
        "where": ("<T>", "where T: Clone", "Option<T>"), "default": ("<T = i32>", "", "Option<T>"),
        "const": ("<const N: usize>", "", "[i32; N]"), "lifetime": ("<'a>", "", "&'a str"), "two": ("<A, B: 'static>", "", "(A, Option<B>)"),
        # every order of the three kinds of parameter the language allows (lifetimes first; types and consts mix)
        "type_const": ("<T, const N: usize>", "", "[T; N]"), "const_type": ("<const N: usize, T>", "", "[T; N]"),
        "all_kinds": ("<'a, K: 'static, const N: usize, V>", "", "(&'a K, [V; N])"),
        "const_default": ("<T, const N: usize = 2>", "", "[T; N]")}
# (parameters bounded by traits that ts_rs::Dummy does not implement need #[ts(concrete(..))] / #[ts(bound)], as
# documented; they are not in the domain)


# free-form items: kinds of item, bodies and parameter lists outside the descriptor language of MC_Attrs.tla
EXTRA_ITEMS = [
    "union U { a: i32, b: u32 }",
    "enum E {}",
    "enum E { A = 1, B = 5 }",
    "#[repr(u8)] enum E { A, B }",
    "struct S;",
    "struct S();",
    "struct S {}",
    "struct S<'a>(&'a str);",
    "struct S<'a, 'b: 'a, T: 'b + Clone>(&'a T, &'b str);",
    "struct S<T>(std::marker::PhantomData<T>);",
    "struct S<T: ?Sized>(Box<T>);",
    "enum E<T> { A(T), B { x: Option<T> }, C(T, T), D }",
    "enum E { A(), B {}, C }",
    "#[ts(tag = \"t\")] enum E { A(), B {} }",
    "#[ts(untagged)] enum E { A, B(), C {} }",
    "#[ts(tag = \"t\", content = \"c\")] enum E { A(), B {}, C(i32, i32) }",
    "#[ts(concrete(T = i32))] struct S<T> { xs: [T; 3] }",
    "#[ts(concrete(T = i32))] struct S<T: 'static> { xs: Vec<[T; 2]>, ys: (T, Option<T>), zs: &'static [T] }",
    "#[ts(bound = \"T: ts_rs::TS\")] struct S<T> { a: T }",
    "#[ts(export)] struct S<T> { a: T }",
    "#[ts(export)] struct S<A, B = i32> { a: A, b: B }",
    "#[ts(export, concrete(T = i32))] struct S<T> { a: T }",
    "#[ts(export)] struct S<'a> { a: &'a str }",
    "#[ts(export)] struct r#type { a: i32 }",
    "#[ts(export)] enum E<T> { A(T), B }",
    "#[ts(export)] struct S<const N: usize> { a: [i32; N] }",
    "#[ts(export)] struct S<T, const N: usize = 2> { a: [T; N] }",
    "#[ts(tag = \"{kind}\")] enum E { A, B { x: i32 }, C(#[ts(skip)] i32) }",
    "#[ts(tag = \"{0}\", content = \"}{\")] enum E { A, B(i32), C { x: i32 } }",
    "#[ts(tag = \"{}\")] struct S { a: i32 }",
    "#[ts(rename = \"{x}\")] struct S { #[ts(rename = \"{}\")] a: i32, #[ts(rename = \"{0:?}\")] b: i32 }",
    "enum E { #[ts(rename = \"{v}\")] A, #[ts(rename = \"}}{{\")] B { x: i32 }, #[ts(rename = \"{}\")] C(i32) }",
    "#[ts(rename_all = \"camelCase\")] enum E { #[ts(rename = \"{a_b}\")] A { x_y: i32 } }",
    "#[ts(export_to = \"{dir}/\")] struct S { a: i32 }",
    "#[doc = \" docs with {braces} and {} and {0}\"] struct S { #[doc = \" {field}\"] a: i32 }",
    "struct S { #[ts(type = \"{ [k: string]: number }\")] a: i32, #[ts(type = \"{}\")] b: i32 }",
    "struct S { a: fn(i32) -> i32 }",
    "struct S { a: *const i32 }",
    "struct S { a: [i32] }",
    "struct S { a: impl Clone }",
    "struct S { a: dyn Clone }",
    "struct S { a: ! }",
    "struct S { a: _ }",
    "struct S { a: (i32) }",
    "struct S { a: ((i32, String),) }",
    "struct S { a: [[i32; 2]; 3] }",
    "struct S { a: &'static [&'static str] }",
    "struct S { a: std::collections::HashMap<String, Vec<Option<Box<S>>>> }",
    "struct S { r#a: i32, r#struct: i32 }",
    "#[ts(rename_all = \"camelCase\")] struct S { r#type: i32, __: i32, _1: i32, A_B: i32 }",
    "#[ts(rename = \"\")] struct S { a: i32 }",
    "#[ts(export_to = \"\")] struct S { a: i32 }",
    "#[ts(export_to = \"/\")] struct S { a: i32 }",
    "#[ts(export_to = 5)] struct S { a: i32 }",
    "#[ts(tag = \"\")] struct S { a: i32 }",
    "#[ts(tag = \"a\")] struct S { a: i32 }",
    "#[ts(concrete(T = i32))] struct S { a: i32 }",
    "#[ts(concrete(T = i32))] struct S<T> { a: T }",
    "#[ts(concrete(T))] struct S<T> { a: T }",
    "#[ts(bound = \"T: Clone\")] struct S<T> { a: T }",
    "#[ts(bound = \"not a bound\")] struct S<T> { a: T }",
    "#[ts(crate = \"ts_rs\")] struct S { a: i32 }",
    "#[ts(crate = \"::nowhere\")] struct S { a: i32 }",
    "#[ts()] struct S { a: i32 }",
    "#[ts] struct S { a: i32 }",
    "#[ts = \"x\"] struct S { a: i32 }",
    "#[ts(,)] struct S { a: i32 }",
    "#[ts(rename)] struct S { a: i32 }",
    "#[ts(rename = )] struct S { a: i32 }",
    "#[ts(rename = \"A\", rename = \"B\")] struct S { a: i32 }",
    "#[doc = 5] struct S { a: i32 }",
    "#[doc(hidden)] struct S { a: i32 }",
    "struct S { #[ts(type = \"\")] a: i32 }",
    "struct S { #[ts(as = \"\")] a: i32 }",
    "struct S { #[ts(as = \"not a type!\")] a: i32 }",
    "struct S { #[ts(as = \"Option<_>\")] a: i32 }",
    "struct S { #[ts(rename = \"\")] a: i32 }",
    "struct S(#[ts(type = \"string\")] i32, #[ts(skip)] i32);",
    "struct S(#[ts(skip)] i32);",
    "struct S(#[ts(skip)] i32, #[ts(skip)] i32);",
    "enum E { #[ts(skip)] A, #[ts(skip)] B }",
    "enum E { A(#[ts(skip)] i32) }",
    "enum E { A { #[ts(skip)] a: i32 } }",
    "fn f() {}",
    "type T = i32;",
    "trait Tr {}",
]


def body_src(shape, fattrs, fty, extra=None, ident="a"):
    fa = " ".join(attr_src(a) for a in fattrs)
    t = FTY[fty]
    ex_named = (", g: %s" % extra) if extra else ""
    ex_tuple = (", %s" % extra) if extra else ""
    return {"named": "{ %s %s: %s, b: i32%s }" % (fa, ident, t, ex_named), "named0": "{}", "tuple": "(%s %s, i32%s)" % (fa, t, ex_tuple), "tuple0": "()",
            "newtype": "(%s %s)" % (fa, t), "unit": ""}[shape]


def item_src(it, name):
    ca = " ".join(attr_src(a) for a in it["c"])
    params, where, extra = GENS[it.get("gen", "none")]
    ident = it.get("ident", "a")
    if it["kind"] == "struct":
        body = body_src(it["shape"], it["f"], it["fty"], extra, ident)
        if it["shape"] in ("tuple", "tuple0", "newtype", "unit"):
            return "%s struct %s%s %s %s;" % (ca, name, params, body, where)
        return "%s struct %s%s %s %s" % (ca, name, params, where, body)
    va = " ".join(attr_src(a) for a in it["v"])
    return "%s enum %s%s %s { %s V %s, W }" % (ca, name, params, where, va, body_src(it["vshape"], it["f"], it["fty"], extra, ident))


def has_serde(it):
    return any(a["ns"] == "serde" for a in it["c"] + it["v"] + it["f"])


def compile_probe(items, tag):
    """items: list of (index, source with derive) -> dict index -> 'ok' | 'fail' | 'fail_isoption'"""
    if not items:
        return {}
    if len(items) > 2500:          # one crate per 2500 items: rustc's memory grows with the size of the crate
        res = {}
        for k in range(0, len(items), 2500):
            res.update(compile_probe(items[k:k + 2500], "%s%d" % (tag, k // 2500)))
        return res
    d = os.path.join(vlib.BUILD, "probe-" + tag)
    shutil.rmtree(d, ignore_errors=True)
    os.makedirs(os.path.join(d, "src"))
    os.makedirs(os.path.join(d, ".cargo"))
    open(os.path.join(d, "Cargo.toml"), "w").write(
        '[package]\nname = "probe"\nversion = "0.0.0"\nedition = "2021"\n[workspace]\n[dependencies]\nts-rs = { path = "%s/ts-rs" }\n'
        '[profile.dev]\ndebug = false\nincremental = false\n' % vlib.REPO)
    open(os.path.join(d, ".cargo", "config.toml"), "w").write('[net]\noffline = true\n[build]\ntarget-dir = "../target-probe"\n')
    shutil.copy(os.path.join(vlib.HARNESS, "rt", "Cargo.lock"), os.path.join(d, "Cargo.lock"))
    lines = ["#![allow(dead_code, non_camel_case_types, non_snake_case, unused)]", "use ts_rs::TS;",
             "#[derive(TS)] pub struct Inner { pub x: i32 }", "mod m { pub fn f() {} }"]
    line_of = {}
    for idx, src in items:
        lines.append("mod i%d { use super::*; #[derive(TS)] %s }" % (idx, src))
        line_of[len(lines)] = idx
    open(os.path.join(d, "src", "lib.rs"), "w").write("\n".join(lines) + "\n")
    # (--tests: the library in test mode, so that the test function #[ts(export)] generates is compiled as well)
    p = vlib.cargo(["check", "--offline", "--tests", "--message-format=json", "-q"], d, capture=True)
    res = {idx: "ok" for idx, _ in items}
    seen_err = False
    for l in p.stdout.splitlines():
        if not l.startswith("{"):
            continue
        try:
            m = json.loads(l)
        except ValueError:
            continue
        if m.get("reason") != "compiler-message" or m["message"].get("level") != "error":
            continue
        seen_err = True
        msg = m["message"]
        for sp in msg.get("spans", []):
            if sp.get("file_name", "").endswith("src/lib.rs") and sp["line_start"] in line_of:
                idx = line_of[sp["line_start"]]
                iso = "can only be used on fields of type `Option`" in msg.get("message", "")
                if "panicked" in msg.get("message", "") or "panicked" in (msg.get("rendered") or ""):
                    res[idx] = "panic"
                elif res[idx] not in ("fail", "panic"):
                    res[idx] = "fail_isoption" if iso else "fail"
    if p.returncode != 0 and not seen_err:
        raise ToolError("probe crate failed to build without a located error:\n" + p.stdout[-3000:])
    shutil.rmtree(d, ignore_errors=True)
    return res


def run(tier):
    t0 = time.time()
    v = vlib.Verdicts(PROP)
    rnd = random.Random(vlib.seed())
    q = tier == "quick"
    cases = []
    stats = {"states": 0, "transitions": 0}
    allg = list(GENS)
    ids = ["a", "r#type", "r#fn", "é", "__", "Aa", "_1"]
    for kinds, mx, gens, idents in ((["struct"], {"c": 2, "v": 0, "f": 1 if q else 2}, ["none"], ["a"]), (["struct"], {"c": 1, "v": 0, "f": 2}, ["none"], ["a"]),
                                    (["enum"], {"c": 1, "v": 2 if not q else 1, "f": 1}, ["none"], ["a"]), (["enum"], {"c": 2, "v": 1, "f": 0 if q else 1}, ["none"], ["a"]),
                                    (["enum"], {"c": 0, "v": 1, "f": 2}, ["none"], ["a"]),
                                    (["struct", "enum"], {"c": 1, "v": 0, "f": 1}, allg, ["a"]),
                                    (["struct", "enum"], {"c": 1, "v": 0, "f": 1}, ["none", "type"], ids)):
        cfgp = os.path.join(vlib.TMP, "attrs-cfg.json")
        json.dump({"kinds": kinds, "palette": palettes(tier), "max": mx, "gens": gens, "idents": idents}, open(cfgp, "w"))
        r = vlib.run_tlc("MC_Attrs", "MC_Attrs.cfg", workers=12, env={"VERIF_CFG": cfgp}, timeout=2400, metatag="c16p")
        vlib.tlc_must_succeed(r, "MC_Attrs")
        stats["states"] += r.distinct
        stats["transitions"] += r.generated
        cases += r.payloads("CASE")
    # distinct items only
    seen, uniq = set(), []
    for c in cases:
        k = json.dumps(c["item"], sort_keys=True)
        if k not in seen:
            seen.add(k)
            uniq.append(c)
    # TLC's workers print in no particular order: a fixed order makes the item numbers and the samples reproducible
    cases = sorted(uniq, key=lambda c: json.dumps(c["item"], sort_keys=True))
    model_silent = [c for c in cases if c["documented"] and c["pred"] == "Accept"]
    # REPLAY: in-process expansion of every item
    srcs = [item_src(c["item"], "T%d" % n) for n, c in enumerate(cases)]
    res = macrodrv.expand(srcs, tag="c16")
    for c, s, (kind, text) in zip(cases, srcs, res):
        if kind == "BADITEM":
            raise ToolError("generated item is not Rust: %s (%s)" % (s, text))
        c["src"], c["real"], c["msg"] = s, kind, (text if kind != "OK" else "")
        c["compiled"] = "na"
    # compile probe: accepted, no serde attributes
    cand = [(n, c) for n, c in enumerate(cases) if c["real"] == "OK" and not has_serde(c["item"])]
    exp_ok = [(n, c) for n, c in cand if c["pred"] == "Accept" and not c["documented"]]
    exp_other = [(n, c) for n, c in cand if not (c["pred"] == "Accept" and not c["documented"])]
    nprobe = 400 if q else 4000
    rnd.shuffle(exp_ok)
    # every accepted item with generics or an unusual identifier is compiled (rustc, not the derive, sees the
    # where clause), plus a sample of the rest
    special = [(n, c) for n, c in exp_ok if c["item"].get("gen", "none") != "none" or c["item"].get("ident", "a") != "a"]
    plain = [(n, c) for n, c in exp_ok if not (c["item"].get("gen", "none") != "none" or c["item"].get("ident", "a") != "a")]
    sel_ok = special[:3000 if q else 30000] + plain[:nprobe]
    out = compile_probe([(n, c["src"]) for n, c in sel_ok], "ok")
    if any(x != "ok" for x in out.values()):
        # an error in one item can hide nothing here (all are reported in one phase), keep the verdicts
        pass
    # every item the derive accepts but rustc has to refuse (`optional` on a field that is not an Option) is compiled
    typeck = [(n, c) for n, c in exp_other if c["pred"] == "RejectAtTypeck"]
    rest = [(n, c) for n, c in exp_other if c["pred"] != "RejectAtTypeck"]
    out.update(compile_probe([(n, c["src"]) for n, c in typeck[:4000 if q else 40000] + rest[:nprobe]], "other"))
    # the real entry point on a sample of rejected items (one crate, all errors come from the derive)
    rej = [(n, c) for n, c in enumerate(cases) if c["real"] == "ERR" and not has_serde(c["item"])]
    rnd.shuffle(rej)
    out.update(compile_probe([(n, c["src"]) for n, c in rej[:150 if q else 1500]], "rej"))
    for n, verdict in out.items():
        cases[n]["compiled"] = verdict
    for c in cases:
        c["free"] = False
    # free-form items: all expanded, all compiled (accepted ones must compile, rejected ones must be ordinary errors)
    fres = macrodrv.expand(EXTRA_ITEMS, tag="c16x")
    free = []
    for n_, (s_, (kind, text)) in enumerate(zip(EXTRA_ITEMS, fres)):
        free.append({"item": {"kind": "free"}, "src": s_, "real": "ERR" if kind == "BADITEM" else kind, "msg": text if kind != "OK" else "", "compiled": "na",
                     "pred": "-", "documented": False, "free": True, "notrust": kind == "BADITEM"})
    # (items rustc refuses with or without the derive - `!`, `_`, `impl Trait`, `dyn Trait` fields, a crate path that
    # does not exist - only have to leave the derive without a panic)
    invalid_anyway = ("a: !", "a: _", "a: impl ", "a: dyn ", "::nowhere",
                      "a: fn(", "a: *const", 'bound = "T: Clone"')      # no TS impl for the field type / the user's bound replaces T: TS
    fo = compile_probe([(k, c["src"]) for k, c in enumerate(free) if c["real"] == "OK" and not any(x in c["src"] for x in invalid_anyway)], "freeok")
    fo.update(compile_probe([(k, c["src"]) for k, c in enumerate(free) if c["real"] == "ERR" and not c["notrust"]], "freerej"))
    for k, verdict in fo.items():
        free[k]["compiled"] = verdict
    base_n = len(cases)
    cases += free
    # ADJUDICATE
    tpath = os.path.join(vlib.TMP, "attrs-trace.ndjson")
    vlib.write_ndjson(tpath, [{"item": c["item"], "real": c["real"], "compiled": c["compiled"], "free": c["free"]} for c in cases])
    a = vlib.run_tlc("Trace_Attrs", "Trace_Attrs.cfg", workers=12, env={"VERIF_TRACE": tpath}, timeout=2400,
                     tags=("BADPANIC", "BADSILENT", "BADCOMPILE", "BADENTRY", "BADFREE", "DRIFT"), metatag="c16a")
    vlib.tlc_must_succeed(a, "Trace_Attrs")
    if a.distinct != len(cases) + 1:
        raise ToolError("adjudication judged %d of %d items" % (a.distinct - 1, len(cases)))
    for tag in ("BADPANIC", "BADSILENT", "BADCOMPILE", "BADENTRY"):
        for k in sorted(set(a.payloads(tag))):
            c = cases[k - 1]
            it = c["item"]
            desc = {"prop": PROP, "tag": tag, "kind": it["kind"], "shape": it["shape"] if it["kind"] == "struct" else it["vshape"],
                    "container": sorted("%s:%s:%s" % (x["ns"], x["key"], x["val"]) for x in it["c"]),
                    "variant": sorted("%s:%s:%s" % (x["ns"], x["key"], x["val"]) for x in it["v"]),
                    "field": sorted("%s:%s:%s" % (x["ns"], x["key"], x["val"]) for x in it["f"]),
                    "container_override": any(x["ns"] == "ts" and x["key"] in ("as", "type") for x in it["c"]),
                    "generics": it.get("gen", "none"), "export": any(x["ns"] == "ts" and x["key"] == "export" and x["val"] == "ok" for x in it["c"]),
                    "variant_skip": any(x["key"] == "skip" and x["val"] == "ok" for x in it["v"]),
                    "real": c["real"], "compiled": c["compiled"]}
            v.fail(desc, {"source": c["src"], "message": c["msg"], "model_outcome": c["pred"], "documented": c["documented"]})
    for k in sorted(set(a.payloads("BADFREE"))):
        c = cases[k - 1]
        v.fail({"prop": PROP, "tag": "BADFREE", "kind": "free-form item", "real": c["real"], "compiled": c["compiled"], "source": c["src"][:60]},
               {"source": c["src"], "message": c["msg"]})
    cases = cases[:base_n]
    drift = sorted(k for k in set(a.payloads("DRIFT")) if k <= base_n)
    if drift:
        c = cases[drift[0] - 1]
        v.note("drift: %d items have an outcome class different from the transcription (e.g. %s -> %s, model %s)" % (len(drift), c["src"], c["real"], c["pred"]))
    if model_silent:
        v.note("model verdict: %d items that must be diagnosed are accepted by the model of the code (e.g. %s)" % (len(model_silent), item_src(model_silent[0]["item"], "T")))
    # the case-conversion part (identifier x rule never panics)
    rc09, cov09 = c09.run_core(tier, PROP)
    rc = v.finish()
    samples = [{"source": c["src"], "derive": c["real"], "message": c["msg"][:120], "rustc": c["compiled"], "model": c["pred"], "must_be_diagnosed": c["documented"]}
               for c in cases[:: max(1, len(cases) // 8)][:8]]
    from collections import Counter
    cov = {"states": stats["states"] + a.distinct + cov09["states"], "transitions": stats["transitions"] + a.generated + cov09["transitions"],
           "traces_validated_against_impl": len(cases) + cov09["traces_validated_against_impl"], "samples": samples,
           "items_expanded_in_process": len(cases), "outcomes": dict(Counter(c["real"] for c in cases)),
           "items_compiled_by_rustc": sum(1 for c in cases if c["compiled"] != "na"),
           "rustc_verdicts": dict(Counter(c["compiled"] for c in cases if c["compiled"] != "na")),
           "must_be_diagnosed": sum(1 for c in cases if c["documented"]), "drift": len(drift),
           "case_conversion_records": cov09["records_adjudicated"], "free_form_items": len(free),
           "free_form_outcomes": dict(Counter("%s/%s" % (c["real"], c["compiled"]) for c in free)),
           "exhaustive": True,
           "rule": "items = {struct, enum} x 6 field shapes x subsets (sizes per slice) of attribute palettes at container / variant / field level (valid keys, unknown keys, wrong value forms, ts and serde spellings) x field type next to `optional`; two further slices put generics (type / bounded / where / default / const / lifetime / two parameters) and unusual identifiers (raw, non-ASCII, underscores) on the items - all accepted ones of these are compiled by rustc; plus every identifier x rule of the C09 domain for the never-panics part"}
    vlib.write_evidence(PROP, tier, "model_checking", cov,
                        ["rustc is asked only about accepted items without serde attributes (a probe crate cannot contain #[serde] without serde's derive)",
                         "generic items: 7 parameter-list shapes on named / tuple bodies; identifiers: raw, non-ASCII, `__`, upper-case, `_1`"],
                        time.time() - t0, len(v.violations))
    return 1 if (rc or rc09) else 0


def replay(path):
    print(json.dumps(json.load(open(path)), indent=1, ensure_ascii=False)[:3000])
    return 1
