"""C03 - exported files import exactly the names they use, from where they live.

PREDICT    Graphs.tla enumerates (edge kind x placement of the dependency x placement of the root x
           spelling of the export directory).
REPLAY     each case is a real module of types; its root is exported with the real export_all_to
           into a fresh directory (import-esm off and on); every written file is parsed; the real
           dependencies() of the root are recorded.
ADJUDICATE Trace_Imports.tla: per file, imported names = free names of its declarations (TsTypes.tla)
           minus same-file declarations, parameters and built-ins, each once; every specifier is
           well-formed and Resolve()s (Paths.tla) to a written file declaring the name; no self-import.
           Static half: names of dependencies() = free names of decl()."""
import json
import os
import shutil
import time

import bindlib
import corpus
import tsparse
import vlib
from vlib import ToolError, log

PROP = "C03"

EDGES = {
    "by_name": "pub struct R§ { pub f: D§ }",
    "option": "pub struct R§ { pub f: Option<D§> }",
    "vec_box_map": "pub struct R§ { pub f: Vec<Box<D§>>, pub m: BTreeMap<String, D§> }",
    "tuple_array": "pub struct R§ { pub f: (i32, D§), pub g: [D§; 2] }",
    "result_range": "pub struct R§ { pub f: Result<D§, E§>, pub r: std::ops::Range<D§> }",
    "generic_arg": "pub struct R§ { pub f: G§<D§> }",
    "arg_of_arg": "pub struct R§ { pub f: Vec<G§<Vec<D§>>> }",
    "generic_only": "pub struct R§ { pub f: G§<i32> }",
    "param_default": "pub struct R§<T = D§> { pub f: T }",
    "inline": "pub struct R§ { #[ts(inline)] pub f: M§ }",
    "inline_generic": "pub struct R§ { #[ts(inline)] pub f: G§<D§> }",
    "flatten": "pub struct R§ { #[ts(flatten)] pub f: M§, pub z: i32 }",
    "as_field": 'pub struct R§ { #[ts(as = "D§")] pub f: Opaque }',
    "as_wrapped": 'pub struct R§ { #[ts(as = "Option<Vec<D§>>")] pub f: Opaque }',
    "type_override": 'pub struct R§ { #[ts(type = "string")] pub f: D§, pub z: i32 }',
    "skip": "pub struct R§ { #[ts(skip)] pub f: D§, pub z: i32 }",
    "optional": "pub struct R§ { #[ts(optional)] pub f: Option<D§>, #[ts(optional = nullable)] pub g: Option<E§> }",
    "self_ref": "pub struct R§ { pub next: Option<Box<R§>>, pub d: D§ }",
    "cycle": "pub struct R§ { pub c: C§ }",
    "newtype_struct": "pub struct R§(pub D§);",
    "tuple_struct": "pub struct R§(pub D§, pub Option<E§>);",
    "ext_enum": "pub enum R§ { A(D§), B { x: E§ }, C(i32, D§), U }",
    "int_enum": '#[ts(tag = "t")] pub enum R§ { A(D§), B { x: E§ }, U }',
    "adj_enum": '#[ts(tag = "t", content = "c")] pub enum R§ { A(D§), B { x: E§ }, C(i32, D§), U }',
    "unt_enum": "#[ts(untagged)] pub enum R§ { A(D§), B { x: E§ } }",
    "ext_newtype_inline": "pub enum R§ { A(#[ts(inline)] M§), U }",
    "adj_newtype_inline": '#[ts(tag = "t", content = "c")] pub enum R§ { A(#[ts(inline)] M§), U }',
    "int_newtype_inline": '#[ts(tag = "t")] pub enum R§ { A(#[ts(inline)] M§), U }',
    "variant_as": 'pub enum R§ { #[ts(as = "D§")] A(Opaque), U }',
    "variant_inline": "pub enum R§ { #[ts(inline)] A { x: M§ }, U }",
    "container_as": '#[ts(as = "M§")] pub struct R§ { pub x: Opaque }',
    "two_in_one_file": "pub struct R§ { pub a: S1§, pub b: S2§ }",
    "inline_then_name": "pub struct R§ { #[ts(inline)] pub own: M§, pub again: M§ }",
    "name_then_inline": "pub struct R§ { pub again: M§, #[ts(inline)] pub own: M§ }",
    "flatten_then_name": "pub struct R§ { #[ts(flatten)] pub own: M§, pub again: Option<M§> }",
    "inline_then_default": "pub struct R§<T = M§> { #[ts(inline)] pub own: M§, pub tag: T }",
    "as_then_name": 'pub struct R§ { #[ts(as = "D§")] pub a: Opaque, pub b: Vec<D§> }',
    "variant_inline_then_name": "pub enum R§ { A { #[ts(inline)] own: M§, again: M§ }, B(M§) }",
    "same_type_twice": "pub struct R§ { pub a: D§, pub b: Option<D§>, pub c: G§<D§> }",
    "flatten_enum": "pub struct R§ { #[ts(flatten)] pub f: FE§, pub z: i32 }",
    # several types of one shared file import different names from one and the same other (shared) file
    "shared_importers": "pub struct R§ { pub a: UA§, pub b: UB§ }",
    "shared_importers_rev": "pub struct R§ { pub b: UB§, pub a: UA§ }",
    "shared_importers3": "pub struct R§ { pub c: UC§, pub a: UA§, pub b: UB§ }",
    "shared_importers_direct": "pub struct R§ { pub a: UA§, pub l: LB§ }",
    # a type reachable only as the argument of a parameter that has a default and that no field names
    "default_param_arg_inline": "pub struct R§ { pub f: GD§<D§>, pub n: i32 }",
    "default_param_arg_phantom": "pub struct R§ { pub f: Option<GP§<E§>>, pub n: i32 }",
    # a parameter that is made concrete AND has a default: the default is not part of the declaration
    "concrete_with_default": '#[ts(concrete(T = D§))] pub struct R§<T = E§> { pub f: T, pub n: i32 }',
    # type overrides on unnamed fields: the Rust type of the field is not a dependency
    "type_override_tuple": 'pub struct R§(#[ts(type = "string")] pub D§, pub i32, pub E§);',
    "type_override_tuple_variant": 'pub enum R§ { A(#[ts(type = "string")] D§, i32), B(#[ts(type = "number")] D§), C { #[ts(type = "boolean")] d: D§, e: E§ } }',
    # two types of one file whose dependencies live in files whose specifiers differ only in the leading ./ and ../
    "same_tail_specifiers": "pub struct R§ { pub a: SA§, pub b: SB§ }",
    # a flattened map with a user type as value; two types of one file whose names differ only in case
    "flatten_map": "pub struct R§ { #[ts(flatten)] pub m: BTreeMap<String, M§>, pub z: i32 }",
    "case_twins": "pub struct R§ { pub a: Cs§, pub b: CS§ }",
    # deep graphs: a chain of 40 types; a type reached both through a chain of 15 (16 levels below the root) and directly
    # library types inlined: what their ELEMENTS' definitions name is needed, the elements themselves are not
    "inline_tuple": "pub struct R§ { #[ts(inline)] pub f: (i32, M§) }",
    "inline_vec_tuple": "pub struct R§ { #[ts(inline)] pub f: Vec<(M§, Option<M§>)>, pub n: i32 }",
    "inline_option_box": "pub struct R§ { #[ts(inline)] pub f: Option<Box<M§>> }",
    "inline_map_array": "pub struct R§ { #[ts(inline)] pub f: BTreeMap<String, [M§; 2]> }",
    "container_as_tuple": '#[ts(as = "(M§, i32)")] pub struct R§ { pub whatever: i32 }',
    "deep_chain": "pub struct R§ { pub chain: J01§ }",
    "deep_diamond": "pub struct R§ { pub chain: K01§, pub shared: KS§ }",
}

# What each root refers to, read off its source above the way the documentation describes dependencies:
# `named`: user types the root refers to by name (directly, as a generic argument, through `as`, or as a
# parameter default); `through`: user types it inlines or flattens (their dependencies become the root's,
# they themselves do not).  Same for the helper items.  Reach.tla closes this relation.
EDGE_DEPS = {
    "by_name": (["D"], []),
    "option": (["D"], []),
    "vec_box_map": (["D"], []),
    "tuple_array": (["D"], []),
    "result_range": (["D", "E"], []),
    "generic_arg": (["G", "D"], []),
    "arg_of_arg": (["G", "D"], []),
    "generic_only": (["G"], []),
    "param_default": (["D"], []),
    "inline": ([], ["M"]),
    "inline_generic": (["D"], ["G"]),
    "flatten": ([], ["M"]),
    "as_field": (["D"], []),
    "as_wrapped": (["D"], []),
    "type_override": ([], []),
    "skip": ([], []),
    "optional": (["D", "E"], []),
    "self_ref": (["R", "D"], []),
    "cycle": (["C"], []),
    "newtype_struct": (["D"], []),
    "tuple_struct": (["D", "E"], []),
    "ext_enum": (["D", "E"], []),
    "int_enum": (["D", "E"], []),
    "adj_enum": (["D", "E"], []),
    "unt_enum": (["D", "E"], []),
    "ext_newtype_inline": ([], ["M"]),
    "adj_newtype_inline": ([], ["M"]),
    "int_newtype_inline": ([], ["M"]),
    "variant_as": (["D"], []),
    "variant_inline": (["M"], []),
    "container_as": ([], ["M"]),
    "two_in_one_file": (["S1", "S2"], []),
    "inline_then_name": (["M"], ["M"]),
    "name_then_inline": (["M"], ["M"]),
    "flatten_then_name": (["M"], ["M"]),
    "inline_then_default": (["M"], ["M"]),
    "as_then_name": (["D"], []),
    "variant_inline_then_name": (["M"], ["M"]),
    "same_type_twice": (["D", "G"], []),
    "flatten_enum": ([], ["FE"]),
    "shared_importers": (["UA", "UB"], []),
    "shared_importers_rev": (["UA", "UB"], []),
    "shared_importers3": (["UA", "UB", "UC"], []),
    "shared_importers_direct": (["UA", "LB"], []),
    "default_param_arg_inline": (["GD", "D"], []),
    "default_param_arg_phantom": (["GP", "E"], []),
    "concrete_with_default": (["D"], []),
    "type_override_tuple": (["E"], []),
    "type_override_tuple_variant": (["E"], []),
    "same_tail_specifiers": (["SA", "SB"], []),
    "flatten_map": ([], ["M"]),          # the inline form of a map inlines its value type
    "case_twins": (["Cs", "CS"], []),
    "inline_tuple": ([], ["M"]),
    "inline_vec_tuple": ([], ["M"]),
    "inline_option_box": ([], ["M"]),
    "inline_map_array": ([], ["M"]),
    "container_as_tuple": ([], ["M"]),
    "deep_chain": (["J01"], []),
    "deep_diamond": (["K01", "KS"], []),
}
HELPER_DEPS = {"D": ([], []), "E": ([], []), "G": ([], []), "M": (["D", "E"], []), "C": (["R", "D"], []), "S1": (["D"], []),
               "S2": (["E", "S1"], []), "FE": (["D", "E"], []), "LA": ([], []), "LB": ([], []), "UA": (["LA"], []), "UB": (["LB"], []),
               "UC": (["LA", "LB"], []), "GD": ([], ["G"]), "GP": ([], []),
               "SA": (["DN"], []), "SB": (["DF"], []), "DN": ([], []), "DF": ([], []),
               "Cs": (["D"], []), "CS": (["E"], []), "KS": (["D"], [])}
CHAIN_J, CHAIN_K = 40, 15
for _k in range(1, CHAIN_J + 1):
    HELPER_DEPS["J%02d" % _k] = (["J%02d" % (_k + 1)] if _k < CHAIN_J else ["D"], [])
for _k in range(1, CHAIN_K + 1):
    HELPER_DEPS["K%02d" % _k] = (["K%02d" % (_k + 1)] if _k < CHAIN_K else ["KS"], [])
DEEP_ITEMS = (["#[derive(TS)] pub struct J%02d§ { pub next: %s }" % (_k, "J%02d§" % (_k + 1) if _k < CHAIN_J else "D§") for _k in range(1, CHAIN_J + 1)] +
              ["#[derive(TS)] pub struct K%02d§ { pub next: %s }" % (_k, "K%02d§" % (_k + 1) if _k < CHAIN_K else "KS§") for _k in range(1, CHAIN_K + 1)] +
              ["#[derive(TS)] pub struct KS§ { pub leaf: D§ }"])
# export_to of the helper items that have one
HELPER_PLACES = {"S1": "pair§.ts", "S2": "pair§.ts", "LA": "leaves§.ts", "LB": "leaves§.ts", "UA": "users§.ts", "UB": "users§.ts", "UC": "users§.ts",
                 "SA": "tail§/shared§.ts", "SB": "tail§/shared§.ts", "DN": "tail§/dep§.ts", "DF": "dep§.ts",
                 "Cs": "case§.ts", "CS": "case§.ts"}
DPLACES = {"default": "", "dir": '#[ts(export_to = "sub/")]', "file": '#[ts(export_to = "custom/file§.ts")]', "nested": '#[ts(export_to = "a/b/")]',
           "escape": '#[ts(export_to = "../esc§/D§.ts")]', "dotted": '#[ts(export_to = "x.y/d.ts/")]', "same_as_root": '#[ts(export_to = "both§.ts")]',
           # ... in one file whose name does not end in .ts (the file form is taken verbatim)
           "same_as_root_mts": '#[ts(export_to = "both§.mts")]',
           "same_dotdot": '#[ts(export_to = "sub§/../both§.ts")]',
           # export_to given by an expression (a constant, a function call) instead of a literal
           # the TypeScript name given by an expression (not a literal): the file is named after it
           "renamed_expr": '#[ts(rename = concat!("Ren", "D§"))]', "renamed_expr_dir": '#[ts(rename = concat!("Ren", "D§"), export_to = "sub/")]',
           # above the working directory (the working directory of such a case is two levels below the directory observed)
           "above_cwd": '#[ts(export_to = "../../../above§/D§.ts")]',
           # file form without an extension (used by C11 only: written verbatim, no import can name it)
           "file_noext": '#[ts(export_to = "custom/noext§")]', "file_other_ext": '#[ts(export_to = "custom/d§.d.mts")]',
           "expr_dir": "#[ts(export_to = EXPR_DIR)]", "expr_file": '#[ts(export_to = expr_file("D§"))]'}
# what the expressions above evaluate to (the constant / function are in the corpus' extra prelude)
EXPR_PLACES = {"expr_dir": "viaexpr/", "expr_file": "viaexpr/file_D§.ts"}
EXPR_PRELUDE = 'pub const EXPR_DIR: &str = "viaexpr/"; pub fn expr_file(n: &str) -> String { format!("viaexpr/file_{n}.ts") }'
RPLACES = {"default": "", "dir": '#[ts(export_to = "rootdir/")]', "nested_file": '#[ts(export_to = "r/deep/Root§.ts")]', "same_as_dep": '#[ts(export_to = "both§.ts")]',
           "escape": '#[ts(export_to = "../resc§/R§.ts")]'}
DIRS = {"relative": "out", "dotslash": "./out/", "absolute": "{ABS}/out", "dotdot": "x/../out"}
PLACED = ["by_name", "generic_arg", "inline", "int_enum", "param_default", "two_in_one_file", "self_ref"]


def case_unit(n, case):
    g = str(1000 + n)
    dp, rp = DPLACES[case["dplace"]].replace("§", g), RPLACES[case["rplace"]].replace("§", g)
    if case["dplace"] == "same_as_root" or case["rplace"] == "same_as_dep":
        dp = rp = '#[ts(export_to = "both%s.ts")]' % g
    if case["dplace"] == "same_dotdot":
        dp, rp = '#[ts(export_to = "sub%s/../both%s.ts")]' % (g, g), '#[ts(export_to = "both%s.ts")]' % g
    if case["dplace"] == "same_as_root_mts":
        dp = rp = '#[ts(export_to = "both%s.mts")]' % g
    items = [
        "#[derive(TS)] %s pub struct D§ { pub v: i32 }" % dp,
        "#[derive(TS)] pub struct E§ { pub w: String }",
        "#[derive(TS)] pub struct G§<T> { pub g: T }",
        "#[derive(TS)] pub struct M§ { pub d: D§, pub e: Option<E§> }",
        "#[derive(TS)] pub struct C§ { pub back: Option<Box<R§>>, pub d: D§ }",
        '#[derive(TS)] #[ts(export_to = "pair§.ts")] pub struct S1§ { pub d: D§ }',
        '#[derive(TS)] #[ts(export_to = "pair§.ts")] pub struct S2§ { pub e: E§, pub s: Option<Box<S1§>> }',
        '#[derive(TS)] #[ts(tag = "k")] pub enum FE§ { A { d: D§ }, B { e: E§ } }',
        '#[derive(TS)] #[ts(export_to = "case§.ts")] pub struct Cs§ { pub d: D§, pub longer_than_its_twin: String }',
        '#[derive(TS)] #[ts(export_to = "case§.ts")] pub struct CS§ { pub e: E§ }',
        '#[derive(TS)] #[ts(export_to = "tail§/dep§.ts")] pub struct DN§ { pub n: i32 }',
        '#[derive(TS)] #[ts(export_to = "dep§.ts")] pub struct DF§ { pub f: i32 }',
        '#[derive(TS)] #[ts(export_to = "tail§/shared§.ts")] pub struct SA§ { pub n: DN§ }',
        '#[derive(TS)] #[ts(export_to = "tail§/shared§.ts")] pub struct SB§ { pub f: Option<DF§> }',
        "#[derive(TS)] pub struct GD§<T = i32> { #[ts(inline)] pub g: G§<T>, pub n: i32 }",
        "#[derive(TS)] pub struct GP§<T = i32> { #[ts(skip)] pub p: std::marker::PhantomData<T>, pub n: i32 }",
        '#[derive(TS)] #[ts(export_to = "leaves§.ts")] pub struct LA§ { pub v: i32 }',
        '#[derive(TS)] #[ts(export_to = "leaves§.ts")] pub struct LB§ { pub w: i32 }',
        '#[derive(TS)] #[ts(export_to = "users§.ts")] pub struct UA§ { pub a: LA§ }',
        '#[derive(TS)] #[ts(export_to = "users§.ts")] pub struct UB§ { pub b: Option<LB§> }',
        '#[derive(TS)] #[ts(export_to = "users§.ts")] pub struct UC§ { pub a: Vec<LA§>, pub b: LB§ }',
    ]
    if case["edge"].startswith("deep_"):
        items += DEEP_ITEMS
    items.append("#[derive(TS)] %s %s" % (rp, EDGES[case["edge"]]))
    src = " ".join(items).replace("§", g)
    root_ty = "R%s" % g
    if case["edge"] == "param_default":
        root_ty = "R%s<D%s>" % (g, g)
    if case["edge"] == "concrete_with_default":
        root_ty = "R%s<D%s>" % (g, g)
    if case["edge"] == "inline_then_default":
        root_ty = "R%s<M%s>" % (g, g)
    return corpus.Unit("X%s" % g, src, [], serde=False, meta={"root_ty": root_ty, "case": case})


def static_closed(items, metatag="c03s2"):
    """items: list of (decl text, names in dependencies()) -> indices (0-based) of the items whose declaration is not
    closed by exactly those names (judged by TLC: FreeNames of TsTypes.tla through Trace_Imports.tla on a synthetic tree)"""
    srecs, idx = [], []
    for k, (decl, deps) in enumerate(items):
        try:
            d_ = tsparse.parse_decl(decl)
        except tsparse.TsSyntaxError:
            continue
        own = d_["name"]
        srecs.append({"esm": False, "files": [
            {"path": [list("Root.ts")], "imports": [{"names": [n], "spec": list("./dep_" + n)} for n in deps if n != own],
             "decls": [{"name": own, "params": [{"name": p["name"], "default": tsparse.strip(p["default"]) if p["default"] else {"k": "none"}} for p in d_["params"]],
                        "body": tsparse.strip(d_["body"])}]}] +
            [{"path": [list("dep_%s.ts" % n)], "imports": [], "decls": [{"name": n, "params": [], "body": {"k": "kw", "v": "null"}}]} for n in deps if n != own]})
        idx.append(k)
    if not srecs:
        return [], 0, 0
    tp = os.path.join(vlib.TMP, "imports-static2.ndjson")
    vlib.write_ndjson(tp, srecs)
    a = vlib.run_tlc("Trace_Imports", "Trace_Imports.cfg", workers=8, env={"VERIF_TRACE": tp}, timeout=1800, tags=("BAD",), metatag=metatag)
    vlib.tlc_must_succeed(a, "Trace_Imports static")
    return sorted({idx[b["rec"] - 1] for b in a.payloads("BAD")}), a.distinct, a.generated


def snapshot(root):
    out = {}
    for dp, dn, fn in os.walk(root):
        for f in fn:
            p = os.path.join(dp, f)
            out[os.path.relpath(p, root)] = open(p, encoding="utf-8", errors="replace").read()
    return out


PRE_EXISTING = {"out/notes.txt": "kept\n", "out/sub/keep.me": "kept too\n", "unrelated/Other.ts": "export type Unrelated = 1;\n"}


def export_cases(tier, esm, stats, sandbox, twice=False, extra_dplaces=()):
    """PREDICT the cases with Graphs.tla, build them, export every root into a fresh directory that
    holds a few unrelated files.  -> (units, observations, {unit: result}, {unit: tree before})"""
    cfgp = os.path.join(vlib.TMP, "graphs-cfg.json")
    q = tier == "quick"
    dplaces = [x for x in DPLACES if x not in ("file_noext", "file_other_ext") and (twice or x != "above_cwd")] if not q else ["default", "dir", "file", "escape", "same_as_root", "same_as_root_mts", "same_dotdot", "expr_dir", "expr_file", "renamed_expr", "renamed_expr_dir"] + (["above_cwd"] if twice else [])
    dplaces = dplaces + [x for x in extra_dplaces if x not in dplaces]
    rplaces = list(RPLACES) if not q else ["default", "nested_file", "escape"]
    dirs = list(DIRS) if not q else ["relative", "absolute"]
    json.dump({"edges": list(EDGES), "dplaces": dplaces, "rplaces": rplaces, "dirs": dirs, "placed": PLACED if not q else PLACED[:4]}, open(cfgp, "w"))
    r = vlib.run_tlc("Graphs", "Graphs.cfg", workers=4, env={"VERIF_CFG": cfgp}, timeout=600, metatag="c03g")
    vlib.tlc_must_succeed(r, "Graphs")
    cases = r.payloads("CASE")
    stats["states"] += r.distinct
    stats["transitions"] += r.generated
    units = [case_unit(n, c) for n, c in enumerate(cases)]
    feats = ("serde-compat", "import-esm") if esm else ("serde-compat",)
    c = corpus.Corpus("graphs-esm" if esm else "graphs", units, features=feats, extra_prelude="pub struct Opaque; " + EXPR_PRELUDE)
    obs = c.observe()
    if c.rejected:
        raise ToolError("graph corpus does not compile: %s" % json.dumps(c.rejected)[:1500])
    reqs, before = [], {}
    for u in units:
        d = os.path.join(sandbox, u.name)
        os.makedirs(d)
        for rel, text in PRE_EXISTING.items():
            os.makedirs(os.path.dirname(os.path.join(d, rel)), exist_ok=True)
            open(os.path.join(d, rel), "w").write(text)
        before[u.name] = snapshot(d)
        cwd_ = d
        if u.meta["case"]["dplace"] == "above_cwd":
            cwd_ = os.path.join(d, "wd", "deeper")
            os.makedirs(cwd_)
        reqs.append({"name": u.name, "cwd": cwd_, "dir": DIRS[u.meta["case"]["dir"]].replace("{ABS}", cwd_)})
    # the same process (one run of the runner) exports the modules whose paths leave the directory once more, into a
    # directory at another depth: what is written there must not depend on the first export
    again = [dict(r_, dir="deeper/nested/out2") for r_, u in zip(reqs, units) if twice and "escape" in (u.meta["case"]["dplace"], u.meta["case"]["rplace"])]
    res = {}
    for r_ in c.export(reqs + again):
        if r_["name"] not in res or r_["result"] != "Ok":
            res[r_["name"]] = r_["result"]
    return units, obs, res, before


def run_mode(tier, esm, v, stats, prop=PROP, payload="BAD"):
    sandbox = vlib.shm_dir("c03")
    try:
        units, obs, res, before = export_cases(tier, esm, stats, sandbox, twice=True)
        recs, meta = [], []
        for u in units:
            case = u.meta["case"]
            d = os.path.join(sandbox, u.name)
            desc = {"prop": prop, "edge": case["edge"], "dplace": case["dplace"], "rplace": case["rplace"], "dir": case["dir"], "esm": esm}
            if res[u.name] != "Ok":
                v.fail(dict(desc, tag="export_failed", message=res[u.name][:80]), {"source": u.src, "result": res[u.name]})
                continue
            files, okparse = [], True
            tree = snapshot(d)
            for rel, text in sorted(tree.items()):
                if not (rel.endswith(".ts") or rel.endswith(".mts")) or rel in PRE_EXISTING:
                    continue
                try:
                    m = tsparse.parse_module(text)
                except tsparse.TsSyntaxError as e:
                    v.fail(dict(desc, tag="file_does_not_parse", file=rel), {"text": text, "error": str(e)})
                    okparse = False
                    continue
                files.append({"path": [list(x) for x in rel.split("/")],
                              "imports": [{"names": i["names"], "spec": list(i["spec"])} for i in m["imports"]],
                              "decls": [{"name": dd["name"], "params": [{"name": p["name"], "default": tsparse.strip(p["default"]) if p["default"] else {"k": "none"}} for p in dd["params"]],
                                         "body": tsparse.strip(dd["body"])} for dd in m["decls"]]})
            if not okparse:
                continue
            recs.append({"esm": esm, "files": files})
            meta.append((desc, u, tree))
            # static half: dependencies() of the root against the free names of its declaration
            info = obs[u.name]["info"]
            if "ok" in info["decl"] and "ok" in info["deps"]:
                d_ = tsparse.parse_decl(info["decl"]["ok"])
                stats["static_checked"] += 1
                stats.setdefault("static", []).append((desc, u, d_, sorted({x[0] for x in info["deps"]["ok"]})))
        tp = os.path.join(vlib.TMP, "imports-trace.ndjson")
        vlib.write_ndjson(tp, recs)
        a = vlib.run_tlc("Trace_Imports", "Trace_Imports.cfg", workers=8, env={"VERIF_TRACE": tp}, timeout=1800, tags=("BAD", "BADSPEC"), metatag="c03a")
        vlib.tlc_must_succeed(a, "Trace_Imports")
        if a.distinct != len(recs) + 1:
            raise ToolError("adjudication judged %d of %d trees" % (a.distinct - 1, len(recs)))
        stats["states"] += a.distinct
        stats["transitions"] += a.generated
        stats["trees"] += len(recs)
        stats["files"] += sum(len(r_["files"]) for r_ in recs)
        for b in a.payloads(payload):
            desc, u, tree = meta[b["rec"] - 1]
            badfiles = [recs[b["rec"] - 1]["files"][k - 1] for k in b["files"]]
            names = ["/".join("".join(x) for x in f["path"]) for f in badfiles]
            v.fail(dict(desc, tag="imports_not_closed" if payload == "BAD" else "specifier_does_not_resolve", files=names), {"source": u.src, "files": {n: tree.get(n) for n in names}, "all_files": sorted(tree)})
        if len(stats["samples"]) < 6 and meta:
            desc, u, tree = meta[len(meta) // 2]
            stats["samples"].append({"case": desc, "files": tree})
    finally:
        shutil.rmtree(sandbox, ignore_errors=True)


def run(tier):
    t0 = time.time()
    v = vlib.Verdicts(PROP)
    stats = {"states": 0, "transitions": 0, "trees": 0, "files": 0, "samples": [], "static_checked": 0}
    for esm in (False, True):
        run_mode(tier, esm, v, stats)
    # static half judged with the same FreeNames, through Trace_Imports on a synthetic one-file tree:
    # a file declaring the root and importing exactly dependencies() must be closed
    srecs, smeta = [], []
    # ... also for every program of the C01 corpus (all attribute combinations, enum representations, generic programs)
    import c01
    punits, pobs, pc, _pst = c01.observe(tier)
    for u in punits:
        if "prog" not in u.meta or u.name in pc.rejected or u.name not in pobs:
            continue
        info = pobs[u.name]["info"]
        # (an instantiation P<A> depends on what its concrete declaration names: the argument included)
        which = "decl_concrete" if u.meta["prog"].get("garg") else "decl"
        if "ok" in info[which] and "ok" in info["deps"]:
            try:
                d_ = tsparse.parse_decl(info[which]["ok"])
            except tsparse.TsSyntaxError:
                continue
            desc = {"prop": PROP, "edge": "program of slice " + u.meta["slice"], "dplace": "-", "rplace": "-", "dir": "-", "esm": False,
                    "field_attrs": sorted({a for f in (u.meta["prog"]["fields"] + [f for vv in u.meta["prog"]["variants"] for f in vv["fields"]]) for a in f["attrs"]})}
            stats.setdefault("static", []).append((desc, u, d_, sorted({x[0] for x in info["deps"]["ok"]})))
            stats["static_checked"] += 1
    for desc, u, d_, deps in stats.pop("static", []):
        if desc["esm"]:
            continue
        own = d_["name"]
        srecs.append({"esm": False, "files": [
            {"path": [list("Root.ts")], "imports": [{"names": [n], "spec": list("./dep_" + n)} for n in deps if n != own],
             "decls": [{"name": own, "params": [{"name": p["name"], "default": tsparse.strip(p["default"]) if p["default"] else {"k": "none"}} for p in d_["params"]],
                        "body": tsparse.strip(d_["body"])}]}] +
            [{"path": [list("dep_%s.ts" % n)], "imports": [], "decls": [{"name": n, "params": [], "body": {"k": "kw", "v": "null"}}]} for n in deps if n != own]})
        smeta.append((desc, u, deps))
    if srecs:
        tp = os.path.join(vlib.TMP, "imports-static.ndjson")
        vlib.write_ndjson(tp, srecs)
        a = vlib.run_tlc("Trace_Imports", "Trace_Imports.cfg", workers=8, env={"VERIF_TRACE": tp}, timeout=1800, tags=("BAD",), metatag="c03s")
        vlib.tlc_must_succeed(a, "Trace_Imports static")
        for b in a.payloads("BAD"):
            desc, u, deps = smeta[b["rec"] - 1]
            v.fail(dict(desc, tag="dependencies_differ_from_names_used"), {"source": u.src, "dependencies": deps})
    # histories: whatever was exported before (and by which entry point), an Ok export with dependencies leaves no
    # dangling import in the files of its closure (Trace_Export.tla, verdict C03i)
    import exportchecks
    hstats = {}
    # (... also along the fault histories: an export that returns Ok although a dependency could not be written)
    hres = exportchecks.run_slice("hist", tier, hstats) + exportchecks.run_slice("faults", tier, hstats)
    for r_ in hres:
        for b in r_["bad"]:
            if b["tag"] == "C03i_dangling_import":
                v.fail({"prop": PROP, "tag": "dangling_import_after_history", "history": exportchecks.describe_steps(r_["steps"]), "step": b["step"]},
                       {"returns": r_["rets"], "final_tree": r_["final_tree"], "files": r_["blob_texts"]})
    stats["states"] += hstats.get("states", 0)
    stats["transitions"] += hstats.get("transitions", 0)
    stats["trees"] += len(hres)
    rc = v.finish()
    cov = {"states": stats["states"], "transitions": stats["transitions"], "traces_validated_against_impl": stats["trees"] + len(srecs),
           "samples": stats["samples"], "exported_trees": stats["trees"], "files_parsed": stats["files"], "static_roots": len(srecs),
           "edge_kinds": len(EDGES), "export_histories": len(hres), "exhaustive": True,
           "rule": "every edge kind (%d) at the default placement + every (dependency placement x root placement x directory spelling) for the edge kinds %s; each under import-esm off and on; every written file parsed and judged by TLC" % (len(EDGES), PLACED)}
    vlib.write_evidence(PROP, tier, "model_checking", cov,
                        ["names inside #[ts(type = \"..\")] overrides are the user's text and are kept to built-ins in the generated cases",
                         "module resolution as in C08"], time.time() - t0, len(v.violations))
    return rc


def replay(path):
    print(json.dumps(json.load(open(path)), indent=1)[:4000])
    return 1
