"""C17 - export failures are returned as errors and do not poison later exports."""
import exportchecks

PROP = "C17"
SLICES = "faults stale".split()


def run(tier):
    return exportchecks.run_property(PROP, SLICES, tier)


def replay(path):
    import json
    print(json.dumps(json.load(open(path))["descriptor"], indent=1))
    return 1
