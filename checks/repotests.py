"""Trace validation against the repository's own test suite (used by C05): `cargo test -p ts-rs --test integration`
(454 tests exporting from the threads of one process) runs on a scratch copy of /repo's working tree with the hook
points switched on and TS_RS_VERIF_TRACE set; the recorded events are consumed one per step by
Trace_RepoTests.tla (registry-level abstraction of Export.tla's step relation) and the files left on disk are compared
with the final registry."""
import json
import os
import re
import shutil
import subprocess

import vlib
from vlib import ToolError

COPY = "/dev/shm/verif-repocopy" if os.path.isdir("/dev/shm") else "/tmp/verif-repocopy"


def run(tier, verdicts, stats, prop="C05"):
    shutil.rmtree(COPY, ignore_errors=True)
    try:
        subprocess.run(["rsync", "-a", "--exclude", "target", "--exclude", ".git", "--exclude", "bindings", vlib.REPO + "/", COPY + "/"], check=True)
        trace = os.path.join(vlib.TMP, "repo-trace.ndjson")
        if os.path.exists(trace):
            os.remove(trace)
        env = {"RUSTFLAGS": "--cfg ts_rs_verif", "TS_RS_VERIF_TRACE": trace, "CARGO_TARGET_DIR": os.path.join(vlib.BUILD, "target-repotests")}
        threads = 8
        p = vlib.cargo(["test", "--offline", "-q", "-p", "ts-rs", "--test", "integration", "--", "--test-threads", str(threads)], COPY, env=env, capture=True, timeout=3000)
        m = re.search(r"test result: (\w+)\. (\d+) passed; (\d+) failed", p.stdout)
        if not m:
            raise ToolError("the repository's integration tests did not run:\n" + p.stdout[-2000:])
        if not os.path.exists(trace):
            raise ToolError("no event trace was written: the TS_RS_VERIF_TRACE hook is missing from /repo")
        # thread ids are opaque; paths are made relative to the scratch copy
        evs = []
        for line in open(trace):
            e = json.loads(line)
            e["path"] = os.path.relpath(e["path"], COPY)
            evs.append(e)
        evs.sort(key=lambda e: e["seq"])
        final = {}
        for dp, dn, fn in os.walk(COPY):
            for f in fn:
                if f.endswith(".ts"):
                    path = os.path.join(dp, f)
                    final[os.path.relpath(path, COPY)] = re.findall(r"^export type ([A-Za-z0-9_$]+)", open(path, encoding="utf-8", errors="replace").read(), re.M)
        tp = os.path.join(vlib.TMP, "repo-trace-rel.ndjson")
        fp = os.path.join(vlib.TMP, "repo-final.json")
        vlib.write_ndjson(tp, evs)
        json.dump(final, open(fp, "w"))
        a = vlib.run_tlc("Trace_RepoTests", "Trace_RepoTests.cfg", workers=1, env={"VERIF_TRACE": tp, "VERIF_FINAL": fp}, timeout=1500,
                         tags=("REJECTED", "STAT"), metatag="trt")
        desc = {"prop": prop, "slice": "repository tests", "tests_passed": int(m.group(2)), "tests_failed": int(m.group(3))}
        rej = a.payloads("REJECTED")
        if rej:
            k = rej[0]["consumed"]
            verdicts.fail(dict(desc, tag="trace_rejected", event=json.dumps(evs[k]) if k < len(evs) else None),
                          {"consumed": k, "events": len(evs), "context": evs[max(0, k - 8):k + 3]})
        elif a.violated:
            verdicts.fail(dict(desc, tag="registered_type_not_in_its_file", invariant=a.violated), {"events": len(evs)})
        else:
            vlib.tlc_must_succeed(a, "Trace_RepoTests")
        if int(m.group(3)):
            verdicts.note("%s of the repository's integration tests failed in the traced run" % m.group(3))
        stats["repo_tests_events_validated"] = len(evs)
        stats["repo_tests_run"] = int(m.group(2)) + int(m.group(3))
        stats["repo_tests_threads"] = threads
        stats["repo_tests_sections"] = sum(1 for e in evs if e["ev"] == "Lock")
        stats["states"] = stats.get("states", 0) + a.distinct
        stats["transitions"] = stats.get("transitions", 0) + a.generated
    finally:
        shutil.rmtree(COPY, ignore_errors=True)
