"""C08 - import specifiers resolve to the dependency's file for every path pair.

PREDICT   MC_Paths.tla: every (base spelling, importing file, imported file) up to the depth
          bound; the property is a TLC invariant on the model of import_path; every case is
          emitted with the predicted specifier.
REPLAY    rt paths: the real import_path on the same pairs (import-esm off and on).
ADJUDICATE Trace_Paths.tla: C08_Holds evaluated by TLC on the real results.
END TO END the specifiers inside the files written by the real export_all_to for the dependency graphs
          of C03 (placements: default, directory, file, nested, `..` escapes of importer and dependency,
          shared file under two spellings) are judged by TLC with the same Resolve (Trace_Imports.tla)."""
import json
import os
import time

import vlib
from vlib import log

PROP = "C08"


def one_pass(tier, esm, verdicts, stats):
    tag = "esm" if esm else "plain"
    cwd = vlib.BUILD                       # depth 2 when /verif is /verif: `..` chains reach the root
    cfg_path = os.path.join(vlib.TMP, "paths_cfg_%s.json" % tag)
    comps = [list(c) for c in cwd.strip("/").split("/")]
    json.dump({"cwd": comps, "esm": esm, "fewbases": tier == "quick"}, open(cfg_path, "w"))
    features = ("import-esm",) if esm else ()
    env = {"CARGO_TARGET_DIR": os.path.join(vlib.BUILD, "target-rt-esm" if esm else "target-rt")}
    vlib.build_harness("rt", features=features, extra_env=env)
    rt = os.path.join(env["CARGO_TARGET_DIR"], "release", "rt")

    # PREDICT
    cases, seen = [], set()
    # (the thorough tier: the deep domain over few names, plus the quick domain - more names, among them the twins d / D)
    for t_ in (["thorough", "quick"] if tier == "thorough" else [tier]):
        cfg_t = cfg_path
        if t_ != tier:
            cfg_t = cfg_path + ".quick"
            json.dump({"cwd": comps, "esm": esm, "fewbases": True}, open(cfg_t, "w"))
        r = vlib.run_tlc("MC_Paths", "MC_Paths_%s.cfg" % t_, workers=12, env={"VERIF_CFG": cfg_t},
                         timeout=3000, metatag="c08p" + tag)
        if r.violated:
            # the model of the code breaks the property: a genuine design defect or a wrong transcription;
            # either way the replay below decides on the real code, so only note it.
            verdicts.note("model verdict: TLC reports %s violated on the model (%s)" % (r.violated, tag))
        else:
            vlib.tlc_must_succeed(r, "MC_Paths " + tag)
        for c_ in r.payloads("CASE"):
            k_ = json.dumps(c_, sort_keys=True)
            if k_ not in seen:
                seen.add(k_)
                cases.append(c_)
        stats["states"] += r.distinct
        stats["transitions"] += r.generated
    if not cases:
        raise vlib.ToolError("no cases produced by MC_Paths")
    cases_path = os.path.join(vlib.TMP, "paths_cases_%s.ndjson" % tag)
    vlib.write_ndjson(cases_path, cases)

    # REPLAY
    obs_path = os.path.join(vlib.TMP, "paths_obs_%s.ndjson" % tag)
    import subprocess
    p = subprocess.run([rt, "paths", cwd, cases_path, obs_path])
    if p.returncode != 0:
        raise vlib.ToolError("rt paths failed")
    obs = [json.loads(l) for l in open(obs_path)]
    if len(obs) != len(cases):
        raise vlib.ToolError("rt paths returned %d of %d cases" % (len(obs), len(cases)))

    # ADJUDICATE (in chunks, the JSON reader of TLC holds a whole chunk in memory)
    bad, drift = [], []
    CH = 60000
    for off in range(0, len(obs), CH):
        chunk = obs[off:off + CH]
        cpath = obs_path + ".chunk"
        vlib.write_ndjson(cpath, chunk)
        a = vlib.run_tlc("Trace_Paths", "Trace_Paths.cfg", workers=12,
                         env={"VERIF_CFG": cfg_path, "VERIF_TRACE": cpath}, timeout=3000,
                         tags=("BAD", "DRIFT"), metatag="c08a" + tag, xmx="8g")
        vlib.tlc_must_succeed(a, "Trace_Paths " + tag)
        if a.distinct != len(chunk) + 1:
            raise vlib.ToolError("adjudication consumed %d of %d records" % (a.distinct - 1, len(chunk)))
        bad += [off + i for i in set(a.payloads("BAD"))]
        drift += [off + i for i in set(a.payloads("DRIFT"))]
        stats["states"] += a.distinct
        stats["transitions"] += a.generated
        os.remove(cpath)
    bad, drift = sorted(bad), sorted(drift)
    stats["adjudicated"] += len(obs)
    stats["drift"] += len(drift)
    stats["pred_equal"] += len(obs) - len(drift)
    for i in bad:
        o = obs[i - 1]
        desc = {"prop": PROP, "esm": esm, "from": o["from_s"], "to": o["to_s"],
                "real_ok": o["real"]["ok"], "real_spec": "".join(o["real"]["spec"]),
                "panic": o["real"].get("panic", False)}
        verdicts.fail(desc, o)
    if drift and not bad:
        o = obs[drift[0] - 1]
        verdicts.note("drift (%s): %d results differ from the prediction but satisfy the property, e.g. %s -> %s: real %r predicted %r"
                      % (tag, len(drift), o["from_s"], o["to_s"], "".join(o["real"]["spec"]), "".join(o["pred"]["spec"])))
    for o in obs[:: max(1, len(obs) // 6)][:6]:
        stats["samples"].append({"esm": esm, "from": o["from_s"], "to": o["to_s"], "real": "".join(o["real"]["spec"]) if o["real"]["ok"] else "Err",
                                 "predicted": "".join(o["pred"]["spec"]) if o["pred"]["ok"] else "Err"})
    stats["err_cases"] += sum(1 for o in obs if not o["real"]["ok"])


def run(tier):
    t0 = time.time()
    v = vlib.Verdicts(PROP)
    stats = {"states": 0, "transitions": 0, "adjudicated": 0, "drift": 0, "pred_equal": 0, "samples": [], "err_cases": 0}
    for esm in (False, True):
        one_pass(tier, esm, v, stats)
    # end to end: the specifiers inside files written by the real export entry points (the C03 graphs),
    # judged with the same Resolve
    import c03
    e2e = {"states": 0, "transitions": 0, "trees": 0, "files": 0, "samples": [], "static_checked": 0}
    for esm in (False, True):
        c03.run_mode(tier, esm, v, e2e, prop=PROP, payload="BADSPEC")
    stats["states"] += e2e["states"]
    stats["transitions"] += e2e["transitions"]
    stats["adjudicated"] += e2e["trees"]
    rc = v.finish()
    cov = {"states": stats["states"], "transitions": stats["transitions"],
           "traces_validated_against_impl": stats["adjudicated"],
           "samples": stats["samples"],
           "cases_replayed": stats["adjudicated"], "predicted_equal": stats["pred_equal"], "drift": stats["drift"],
           "cases_where_result_is_error": stats["err_cases"],
           "end_to_end_exported_trees": e2e["trees"], "end_to_end_files": e2e["files"],
           "exhaustive": True,
           "rule": "all (base spelling in 5; quick: 3) x (importing dir of depth<=D over {., .., d, .h, ..v, x.y, d.ts} (thorough: {., .., d, x.y})) x (imported path of depth<=D, 6 file names incl. x.ts.ts, j.js.ts and .h.ts), D=%d, import-esm off and on; each pair is one TLC state, replayed through the real import_path, judged by C08_Holds in TLC" % (2 if tier == "quick" else 3),
           "constants": {"MaxDepth": 2 if tier == "quick" else 3, "cwd": vlib.BUILD}}
    vlib.write_evidence(PROP, tier, "model_checking", cov,
                        ["Linux path semantics (the Windows branch of import_path is not executed)",
                         "module resolution is read as: walk the specifier's segments from the importing file's directory, then append .ts (after dropping .js under import-esm)",
                         "file names end in .ts"], time.time() - t0, len(v.violations))
    return rc


def replay(path):
    d = json.load(open(path))
    log(json.dumps(d["descriptor"], indent=1))
    return 1
