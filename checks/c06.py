"""C06 - export results depend only on what was exported, not how or in what order."""
import exportchecks

PROP = "C06"
SLICES = "hist spell stale prev imports samefile underscore".split()


def run(tier):
    return exportchecks.run_property(PROP, SLICES, tier)


def replay(path):
    import json
    print(json.dumps(json.load(open(path))["descriptor"], indent=1))
    return 1
