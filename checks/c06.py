"""C06 - export results depend only on what was exported, not how or in what order."""
import exportchecks

PROP = "C06"
SLICES = "hist spell stale prev imports samefile underscore casepaths".split()


def stages(tier, v, stats, seed):
    # "a declaration that has been exported is never lost by a later export" - also when the later export runs on
    # another thread: the exact schedules of the C05 check, verdicts filed here
    import threads
    threads.run(tier, v, stats, seed)


def run(tier):
    return exportchecks.run_property(PROP, SLICES, tier, extra_stage=stages,
                                     extra_assumptions=["thread runs: see C05"])


def replay(path):
    import json
    print(json.dumps(json.load(open(path))["descriptor"], indent=1))
    return 1
