"""C02 - every inhabitant of the generated TypeScript type deserializes.

Same corpus as C01.  For every program whose own serialized samples deserialize again (the fragment
on which serde round-trips), witnesses are enumerated from the REAL declared type (each union arm,
optional-member subsets, array lengths 0..2, map sizes 0..1) plus near-miss variations of real
samples; each is fed to the real serde Deserialize of the type.
ADJUDICATE (Trace_Binding.tla): the witness inhabits the type (else it is discarded), it is
accepted, and what is serialized back inhabits the type again."""
import json
import time

import bindlib
import c01
import tsparse
import vlib
import witness
from vlib import ToolError, log

PROP = "C02"


def run(tier):
    t0 = time.time()
    v = vlib.Verdicts(PROP)
    units, obs, c, st = c01.observe(tier)
    env = bindlib.base_env(obs)
    # 1. the round-trip fragment
    reqs, owner = [], {}
    progs = []
    for u in units:
        if "prog" not in u.meta or u.name in c.rejected or u.name not in obs:
            continue
        info = obs[u.name]["info"]
        if "ok" not in info["decl"] or "ok" not in info["name"]:
            continue
        try:
            decl = bindlib.decl_record(info["decl"]["ok"])
            root = tsparse.strip(tsparse.parse_type(info["name"]["ok"]))
        except tsparse.TsSyntaxError:
            continue
        # (a type with a value serde refuses to serialize is outside "the fragment on which serde round-trips its own output")
        samples = [s["ok"] for s in obs[u.name]["samples"] if "ok" in s] if all("ok" in s for s in obs[u.name]["samples"]) else []
        progs.append((u, decl, root, samples))
        for k, s in enumerate(samples):
            reqs.append(("rt-%s-%d" % (u.name, k), u.name, s))
    rt = c.deser(reqs)
    fragment, dropped = [], 0
    for u, decl, root, samples in progs:
        if all("ok" in rt["rt-%s-%d" % (u.name, k)] for k in range(len(samples))) and samples:
            fragment.append((u, decl, root, samples))
        else:
            dropped += 1
    # 2. witnesses
    wreqs, wmeta = [], []
    for u, decl, root, samples in fragment:
        e2 = dict(env)
        e2[decl["name"]] = {"params": decl["params"], "body": decl["body"]}
        ws = [(w, "generated") for w in witness.witnesses(root, e2, limit=24 if tier == "quick" else 60)]
        for s in samples[:3]:
            for w in witness.near_misses(json.loads(s), root, e2):
                ws.append((w, "near-miss"))
        for n, (w, kind) in enumerate(ws):
            wid = "w-%s-%d" % (u.name, n)
            wreqs.append((wid, u.name, json.dumps(w)))
            wmeta.append((wid, u, decl, root, w, kind))
    res = c.deser(wreqs)
    records = []
    for wid, u, decl, root, w, kind in wmeta:
        r = res[wid]
        acc = "ok" in r
        records.append({"kind": "wit", "decls": [decl], "root": root, "json": tsparse.json_value(w), "accepted": acc,
                        "reser": tsparse.json_value(json.loads(r["ok"])) if acc else {"k": "null"}})
    bad, tool, a = bindlib.adjudicate(records, env, "c02")
    n_generated_not_in = 0
    for i in sorted(tool):
        if wmeta[i - 1][5] == "generated":
            n_generated_not_in += 1
    for i in sorted(bad):
        wid, u, decl, root, w, kind = wmeta[i - 1]
        r = res[wid]
        d = bindlib.prog_descriptor(PROP, u.meta["slice"], u.meta["prog"])
        d["accepted"] = "ok" in r
        d["witness_kind"] = kind
        d["serde_error_class"] = classify_err(r.get("err", ""))
        d["witness_json_kind"] = c01.classify_json(json.dumps(w))
        reser_nulls = c01.null_keys(json.loads(r["ok"]), set()) if "ok" in r else set()
        d["reser_optional_member_is_null"] = bool(c01.optional_keys(decl["body"], set()) & reser_nulls)
        v.fail(d, {"item": u.src, "witness": json.dumps(w), "decl": obs[u.name]["info"]["decl"]["ok"], "serde": r})
    if n_generated_not_in:
        v.note("%d generated witnesses were discarded by TLC (not inhabitants of the declared type: generator imprecision, not a verdict)" % n_generated_not_in)
    rc = v.finish()
    inhabit = len(records) - len(tool)
    cov = {"states": st["states"] + a.distinct, "transitions": st["transitions"] + a.generated,
           "traces_validated_against_impl": inhabit,
           "samples": [{"item": m[1].src[:160], "witness": json.dumps(m[4]), "accepted": "ok" in res[m[0]]} for m in wmeta[:: max(1, len(wmeta) // 6)][:6]],
           "programs_in_roundtrip_fragment": len(fragment), "programs_dropped_serde_does_not_roundtrip": dropped,
           "witnesses": len(records), "witnesses_confirmed_inhabitants_by_tlc": inhabit,
           "near_miss_variants": sum(1 for m in wmeta if m[5] == "near-miss"), "exhaustive": False,
           "rule": "for each program of the C01 corpus on which serde round-trips its own samples: type-directed witnesses of the real declared type (every union arm, optional-member subsets, array lengths 0..2, map sizes 0..1; up to %d per program) + near-miss variants of real samples; each confirmed an inhabitant by TLC, then fed to the real Deserialize" % (24 if tier == "quick" else 60)}
    vlib.write_evidence(PROP, tier, "model_checking", cov,
                        ["numbers are small integers that every Rust leaf type used in the corpus can represent; strings for char are one character",
                         "a witness TLC does not confirm as an inhabitant is discarded, never reported"],
                        time.time() - t0, len(v.violations))
    return rc


def classify_err(e):
    for k in ("missing field", "unknown variant", "unknown field", "invalid type", "invalid length", "did not match any variant", "invalid value", "expected"):
        if k in e:
            return k
    return e[:40]


def replay(path):
    print(json.dumps(json.load(open(path)), indent=1)[:4000])
    return 1
