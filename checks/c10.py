"""C10 - serde and ts attribute spellings are equivalent; ts wins; unknown serde is inert.

PREDICT    MC_AttrEquiv.tla: for every position and every key supported in both namespaces, the
           pairs of spellings (equiv / split / tswins / inert at every index / compat off) with the
           verdict of the transcribed parser (Attrs.tla: lists, merge, per-entry serde parsing).
REPLAY     both spellings of each pair are rendered onto a carrier item and expanded in-process by
           the real derive, once per feature set (serde-compat on / off, no-serde-warnings on / off).
ADJUDICATE Trace_AttrEquiv (in Trace_Attrs.tla style): both expansions succeed and are the same
           implementation (token streams equal after sorting the two HashSet-ordered places)."""
import json
import os
import re
import time

import macrodrv
import vlib
from vlib import ToolError, log

PROP = "C10"

KEYS = {
    "struct": [("rename", False, "rename_all", False), ("rename_all", False, "rename", False), ("tag", False, "rename_all", False)],
    "enum": [("rename", False, "rename_all", False), ("rename_all", False, "rename_all_fields", False),
             ("rename_all_fields", False, "rename_all", False), ("tag", False, "rename_all", False), ("tag", False, "content", False),
             ("content", False, "rename_all", False), ("untagged", True, "rename_all", False)],
    "variant": [("rename", False, "rename_all", False), ("rename_all", False, "rename", False), ("skip", True, "", False),
                ("untagged", True, "rename", False)],
    "field": [("rename", False, "skip", True), ("skip", True, "rename", False), ("flatten", True, "", False)],
}
CTX = {"struct": [("export", True), ("optional_fields", True), ("as", False), ("type", False)],
       "enum": [("export", True), ("as", False), ("type", False)],
       "variant": [("skip", True), ("inline", True), ("as", False), ("type", False)],
       "field": [("skip", True), ("inline", True), ("optional", True), ("as", False), ("type", False)]}
VALUES = {"as": ("Inner", "Inner"), "type": ("string", "string"), "rename": ("renamedOne", "renamedTwo"), "rename_all": ("camelCase", "SCREAMING_SNAKE_CASE"),
          "rename_all_fields": ("camelCase", "SCREAMING_SNAKE_CASE"), "tag": ("kind", "type2"), "content": ("data", "payload")}
JUNK_SRC = {"skip_serializing_if": 'skip_serializing_if = "Option::is_none"', "rename_split": 'rename(serialize = "ser_name")',
            "bound_paren": 'bound(serialize = "T: Clone")', "default_path": 'default = "some::path"', "other": "other",
            "alias": 'alias = "x"', "rename_all_de": 'rename_all(deserialize = "SCREAMING_SNAKE_CASE")', "rename_de": 'rename(deserialize = "de_name")',
            # long values with multi-byte characters at every byte offset (whatever the derive does with the text of an
            # entry it does not know - print it, cut it - has to survive them)
            "alias_long_a": 'alias = "%s"' % ("ä" * 60), "alias_long_b": 'alias = "x%s"' % ("ä" * 60), "expecting_long": 'expecting = "%s"' % ("日本語の説明" * 12), "crate_kw": 'crate = "my_serde"', "deny_unknown_fields": "deny_unknown_fields", "borrow": "borrow", "getter": 'getter = "f"'}


def junk_cls(pos, name):
    if name in ("rename_split", "rename_de"):
        return "bad"
    if name == "rename_all_de":
        return "bad" if pos in ("struct", "enum", "variant") else "unknown"
    if name == "bound_paren":
        return "bad" if pos in ("struct", "enum") else "unknown"
    if name == "default_path":
        return {"struct": "bad", "field": "inert"}.get(pos, "unknown")   # struct: `=` is consumed twice, the entry cannot be parsed
    if name == "deny_unknown_fields":
        return "inert" if pos == "struct" else "unknown"
    return "unknown"


def config():
    return {"keys": {p: [{"key": k, "flag": f, "k2": k2, "k2flag": f2} for k, f, k2, f2 in ks] for p, ks in KEYS.items()},
            "ctx": {p: [{"key": k, "flag": f} for k, f in cs] for p, cs in CTX.items()},
            "junk": {p: [{"name": n, "cls": junk_cls(p, n)} for n in JUNK_SRC] for p in KEYS}}


# a second rendering of the cases about a naming convention: v1 is the convention that leaves the names of the position
# as they are written (snake_case for fields, PascalCase for variants) - it is still a value, and still wins / splits /
# is equivalent like any other
IDENTITY_V1 = {"struct": "snake_case", "variant": "snake_case", "enum": "PascalCase"}
OVERRIDE = {}


def entry_src(e):
    if e["key"] in JUNK_SRC:
        return JUNK_SRC[e["key"]]
    if e["val"] == "flag":
        return e["key"]
    if e["val"] == "v1" and e["key"] in OVERRIDE:
        return '%s = "%s"' % (e["key"], OVERRIDE[e["key"]])
    return '%s = "%s"' % (e["key"], VALUES[e["key"]][0 if e["val"] == "v1" else 1])


def lists_src(lists):
    return " ".join("#[%s(%s)]" % (l["ns"], ", ".join(entry_src(e) for e in l["entries"])) for l in lists)


def carrier(pos, lists, info):
    a = lists_src(lists)
    if pos == "struct":
        return "%s struct Carrier { foo_bar: i32, other_field: Inner }" % a
    if pos == "enum":
        has = lambda k_: any(e["key"] == k_ for l in lists for e in l["entries"])
        ctx = '#[ts(tag = "kind")] ' if (info == "content" or has("content")) and not has("tag") else ""
        return "%s%s enum Carrier { FooBar { inner_field: i32 }, UnitVariant, NewT(Inner) }" % (ctx, a)
    if pos == "variant":
        return "enum Carrier { %s FooBar { inner_field: i32 }, UnitVariant }" % a
    if pos == "field":
        opt = any(e["key"] == "optional" for l in lists for e in l["entries"])
        return "struct Carrier { %s foo_bar: %s, other_field: i32 }" % (a, "Option<Inner>" if opt else "Inner")
    raise ToolError(pos)


DEPS_RE = re.compile(r"(fn visit_dependencies \(v : & mut impl [^{]*\{)(.*?)(\} \})")
WHERE_RE = re.compile(r"^(impl <[^{]*?> :: ts_rs :: TS for \w+ <[^{]*?>) where (.*?) (\{ type WithoutGenerics)")


def canon(tokens):
    """sort the two places whose order comes from HashSet iteration inside the macro"""
    m = DEPS_RE.search(tokens)
    if m:
        stmts = sorted(s.strip() for s in m.group(2).split(" ; ") if s.strip().strip(";").strip())
        tokens = tokens[:m.start()] + m.group(1) + " ; ".join(stmts) + tokens[m.start(3):]
    m = WHERE_RE.search(tokens)
    if m:
        preds = sorted(p.strip() for p in m.group(2).split(" , ") if p.strip())
        tokens = m.group(1) + " where " + " , ".join(preds) + " " + tokens[m.start(3):]
    return tokens


def run(tier):
    t0 = time.time()
    v = vlib.Verdicts(PROP)
    cfgp = os.path.join(vlib.TMP, "c10-cfg.json")
    json.dump(config(), open(cfgp, "w"))
    recs, stats = [], {"states": 0, "transitions": 0}
    feature_sets = [("on", ("serde-compat",)), ("on", ("serde-compat", "no-serde-warnings")), ("off", ()), ("off", ("no-serde-warnings",))]
    # (all four corners of serde-compat x no-serde-warnings in both tiers)
    model_bad = 0
    for mode, feats in feature_sets:
        r = vlib.run_tlc("MC_AttrEquiv", "MC_AttrEquiv_%s.cfg" % mode, workers=8, env={"VERIF_CFG": cfgp}, timeout=1200, metatag="c10p")
        if r.violated:
            # TLC stops at the first violated invariant: enumerate again without the model's own verdict
            v.note("model verdict: TLC reports %s violated on the transcription (%s)" % (r.violated, mode))
            r = vlib.run_tlc("MC_AttrEquiv", "MC_AttrEquiv_%s_report.cfg" % mode, workers=8, env={"VERIF_CFG": cfgp}, timeout=1200, metatag="c10p")
        vlib.tlc_must_succeed(r, "MC_AttrEquiv")
        stats["states"] += r.distinct
        stats["transitions"] += r.generated
        cases = r.payloads("CASE")
        # the carrier of `content` brings its own #[ts(tag = ..)], which `as` / `type` do not go with
        cases = [c for c in cases if not (c["pos"] == "enum" and c["ctx"] in ("as", "type") and carrier("enum", c["A"], c["info"]).startswith("#[ts(tag"))]
        items = []
        alt = [dict(c, alt=True) for c in cases if c["pos"] in IDENTITY_V1 and
               any(e["key"] in ("rename_all", "rename_all_fields") and e["val"] == "v1" for l in c["A"] + c["B"] for e in l["entries"])]
        cases = cases + alt
        for c in cases:
            OVERRIDE.clear()
            if c.get("alt"):
                OVERRIDE.update({"rename_all": IDENTITY_V1[c["pos"]], "rename_all_fields": "snake_case"})
            items.append(carrier(c["pos"], c["A"], c["info"]))
            items.append(carrier(c["pos"], c["B"], c["info"]))
        OVERRIDE.clear()
        res = macrodrv.expand(items, features=feats, tag="c10")
        for n, c in enumerate(cases):
            (ka, ta), (kb, tb) = res[2 * n], res[2 * n + 1]
            if "BADITEM" in (ka, kb):
                raise ToolError("generated item is not Rust: %s / %s" % (items[2 * n], items[2 * n + 1]))
            same = ka == "OK" and kb == "OK" and canon(ta) == canon(tb)
            recs.append({"pos": c["pos"], "class": c["class"], "info": c["info"], "ctx": c["ctx"], "A": c["A"], "B": c["B"],
                         "realA": ka, "realB": kb, "same": same, "features": "+".join(feats) or "none",
                         "srcA": items[2 * n], "srcB": items[2 * n + 1], "pred_same": c["pred_same"],
                         "msgA": ta if ka != "OK" else "", "msgB": tb if kb != "OK" else ""})
    # ADJUDICATE
    tpath = os.path.join(vlib.TMP, "c10-trace.ndjson")
    vlib.write_ndjson(tpath, [{"realA": r_["realA"], "realB": r_["realB"], "same": r_["same"], "pred_same": r_["pred_same"]} for r_ in recs])
    a = vlib.run_tlc("Trace_AttrEquiv", "Trace_AttrEquiv.cfg", workers=8, env={"VERIF_TRACE": tpath}, timeout=1200,
                     tags=("BAD", "DRIFT"), metatag="c10a")
    vlib.tlc_must_succeed(a, "Trace_AttrEquiv")
    if a.distinct != len(recs) + 1:
        raise ToolError("adjudication judged %d of %d pairs" % (a.distinct - 1, len(recs)))
    for k in sorted(set(a.payloads("BAD"))):
        r_ = recs[k - 1]
        junk = r_["info"] if r_["class"] == "inert" else None
        desc = {"prop": PROP, "class": r_["class"], "position": r_["pos"], "key_or_junk": r_["info"], "context": r_["ctx"], "features": r_["features"],
                "realA": r_["realA"], "realB": r_["realB"],
                "junk_class": junk_cls(r_["pos"], junk) if junk else None}
        v.fail(desc, {"A": r_["srcA"], "B": r_["srcB"], "messageA": r_["msgA"][:300], "messageB": r_["msgB"][:300]})
    drift = sorted(set(a.payloads("DRIFT")))
    if drift and not v.violations:
        v.note("drift: %d pairs where the transcription and the real derive disagree on equality" % len(drift))
    rc = v.finish()
    from collections import Counter
    cov = {"states": stats["states"] + a.distinct, "transitions": stats["transitions"] + a.generated,
           "traces_validated_against_impl": len(recs),
           "samples": [{"class": r_["class"], "features": r_["features"], "A": r_["srcA"], "B": r_["srcB"], "same_implementation": r_["same"]}
                       for r_ in recs[:: max(1, len(recs) // 8)][:8]],
           "pairs": len(recs), "by_class": dict(Counter(r_["class"] for r_ in recs)), "by_features": dict(Counter(r_["features"] for r_ in recs)),
           "drift": len(drift), "exhaustive": True,
           "rule": "for each position in {struct, enum, variant, field} and each key supported in both namespaces: serde-vs-ts spelling, one list vs split lists, ts value vs different serde value in both list orders, each of 9 unsupported/unparseable serde entries inserted at every index of a 1- and 2-entry list, and (compat off) serde list vs none; each pair expanded by the real derive under every feature set; equal = same token stream after sorting dependency statements and where-predicates"}
    vlib.write_evidence(PROP, tier, "model_checking", cov,
                        ["equality of the generated implementation is sufficient for identical bindings (decl/inline/name/dependencies are computed by that code)",
                         "#[serde(with = ..)] is not treated as inert: ts-rs documents that it requires #[ts(as/type)]"],
                        time.time() - t0, len(v.violations))
    return rc


def replay(path):
    print(json.dumps(json.load(open(path)), indent=1)[:3000])
    return 1
