"""C14 - inline, flatten and `as` change presentation, never meaning.

Sibling items (same underlying Rust type of a field, different presentation) are compiled for real;
their real declarations are compared by DENOTATION: witnesses of each declared type must inhabit
the other (TLC, Inhabits of TsTypes.tla, both directions).  Three families:
  inline  - programs of the C01 corpus that differ only by #[ts(inline)] on a field
  as      - `#[ts(as = "T")] f: Opaque` against `f: T` (field, newtype, tuple, variant, container)
  flatten - `#[ts(flatten)] f: S` against the struct with S's fields spelled out; inlined inside
            flattened and flattened inside inlined
and for every program inline() must be the body of decl_concrete()."""
import copy
import json
import time

import bindlib
import c01
import corpus
import tsparse
import vlib
import witness
from vlib import ToolError, log

PROP = "C14"

# type expression -> hand expansion of its fields (for the flatten family)
FLAT = {
    "Inner": "pub x: i32, pub y: Option<String>",
    "Gen<i32>": "pub g: i32, pub o: Option<i32>",
    "Gen<Inner>": "pub g: Inner, pub o: Option<Inner>",
    "Pair<String>": "pub a: String, pub b: Vec<i32>",
    "Box<Inner>": "pub x: i32, pub y: Option<String>",
}
AS_TYPES = ["i32", "Option<i32>", "Vec<Inner>", "Inner", "Gen<i32>", "(i32, String)", "BTreeMap<String, Inner>", "DataE", "TagE", "UnitE",
            "Box<Inner>", "[i32; 2]", "Option<Vec<Gen<Inner>>>", "std::ops::Range<i32>", "[Inner; 64]", "Vec<[i32; 65]>"]


TWO_FLAT = (("Inner", "Pair<String>"), ("Gen<i32>", "Pair<String>"), ("Inner", "Gen<Inner>"), ("Box<Inner>", "Gen<i32>"))
PRELUDE = "#[derive(TS)] pub struct InnerTwin { pub x: i32, pub y: Option<String> }\n#[derive(TS)] pub struct GenTwin<T> { pub g: T, pub o: Option<T> }\n" + "".join("#[derive(TS)] pub struct Both%d { #[ts(flatten)] pub f: %s, #[ts(flatten)] pub h: %s }\n#[derive(TS)] pub struct BothSpelt%d { %s, %s }\n"
                  % (n_, a_, b_, n_, FLAT[a_], FLAT[b_]) for n_, (a_, b_) in enumerate(TWO_FLAT)) + """pub struct Opaque;
#[derive(TS)] pub struct Mid1 { #[ts(inline)] pub inner: Inner, pub m: i32 }
#[derive(TS)] pub struct Mid2 { #[ts(flatten)] pub inner: Inner, pub m: i32 }
#[derive(TS)] pub struct MidFlat { pub x: i32, pub y: Option<String>, pub m: i32 }
#[derive(TS)] #[ts(tag = "k")] pub enum Two { A { a: i32 }, B { b: String } }
#[derive(TS)] #[ts(untagged)] pub enum One1 { Only(#[ts(inline)] TagE) }
#[derive(TS)] #[ts(untagged)] pub enum One2 { Only { #[ts(flatten)] c: Two } }
#[derive(TS)] pub enum One3 { #[ts(untagged)] Only(#[ts(inline)] Two), #[ts(skip)] Other }
#[derive(TS)] #[ts(untagged)] pub enum One4 { #[ts(type = "{ a: string } | { b: number }")] Only(i32) }
#[derive(TS)] pub enum One5 { Only { a: i32 } }
#[derive(TS)] #[ts(tag = "k", content = "c")] pub enum One6 { Only(#[ts(inline)] Two) }
#[derive(TS)] pub struct OnlyTail { pub tail: String }
#[derive(TS)] #[ts(tag = "kind")] pub struct Tagged { pub a: i32, pub b: Option<String> }
#[derive(TS)] pub struct MidT { #[ts(flatten)] pub t: Tagged, pub m: i32 }
#[derive(TS)] #[ts(tag = "kind", rename_all = "camelCase")] pub struct TaggedRen { pub first_field: i32 }
#[derive(TS)] #[ts(tag = "kind")] pub struct TaggedEmpty {}
"""
# object-like enums: flattening one denotes  parent & enum  ("the object obtained by merging the flattened
# type's properties into the parent", alternative by alternative)
FLAT_ENUMS = ["TagE", "Two", "One1", "One2", "One3", "One4", "One5", "One6", "Box<Two>",
              # and structs that carry a container-level tag (the tag is one of their properties), alone and nested
              "Tagged", "Box<Tagged>", "MidT", "TaggedRen", "TaggedEmpty", "Gen<Tagged>"]


def pres_units():
    """-> (units, pairs) ; pairs: (family, label, unit A, unit B) whose declarations must denote the same type"""
    units, pairs = [], []
    n = [0]

    def unit(src_tmpl):
        name = "Q%d" % n[0]
        n[0] += 1
        u = corpus.Unit(name, "#[derive(TS)] " + src_tmpl.replace("@", name), [], serde=False)
        units.append(u)
        return u

    for t in AS_TYPES:
        for pos, a, b in (
            ("named field", 'pub struct @ { #[ts(as = "%s")] pub f: Opaque, pub g: String }' % t, "pub struct @ { pub f: %s, pub g: String }" % t),
            ("newtype", 'pub struct @(#[ts(as = "%s")] pub Opaque);' % t, "pub struct @(pub %s);" % t),
            ("tuple field", 'pub struct @(#[ts(as = "%s")] pub Opaque, pub i32);' % t, "pub struct @(pub %s, pub i32);" % t),
            ("variant payload", 'pub enum @ { A(#[ts(as = "%s")] Opaque), B }' % t, "pub enum @ { A(%s), B }" % t),
            ("variant", 'pub enum @ { #[ts(as = "%s")] A(Opaque, Opaque), B }' % t, "pub enum @ { A(%s), B }" % t),
            ("underscore", 'pub struct @ { #[ts(as = "Option<_>")] pub f: %s }' % t, "pub struct @ { pub f: Option<%s> }" % t),
            # inline against by name, for every type constructor of the list
            ("inline vs name, named field", "pub struct @ { #[ts(inline)] pub f: %s, pub g: String }" % t, "pub struct @ { pub f: %s, pub g: String }" % t),
            ("inline vs name, variant payload", "pub enum @ { A(#[ts(inline)] %s), B }" % t, "pub enum @ { A(%s), B }" % t),
            # `as` together with `inline`: the inline form of the `as` type
            ("named field, inlined", 'pub struct @ { #[ts(as = "%s", inline)] pub f: Opaque, pub g: String }' % t, "pub struct @ { #[ts(inline)] pub f: %s, pub g: String }" % t),
            ("newtype, inlined", 'pub struct @(#[ts(as = "%s", inline)] pub Inner);' % t, "pub struct @(#[ts(inline)] pub %s);" % t),
            ("tuple field, inlined", 'pub struct @(#[ts(as = "%s", inline)] pub Inner, pub i32);' % t, "pub struct @(#[ts(inline)] pub %s, pub i32);" % t),
            ("variant payload, inlined", 'pub enum @ { A(#[ts(as = "%s", inline)] Inner), B }' % t, "pub enum @ { A(#[ts(inline)] %s), B }" % t),
            ("untagged variant payload, inlined", '#[ts(untagged)] pub enum @ { A(#[ts(as = "%s", inline)] Inner), B }' % t, "#[ts(untagged)] pub enum @ { A(#[ts(inline)] %s), B }" % t),
        ):
            pairs.append(("as", "%s / %s" % (pos, t), unit(a), unit(b)))
    for t in ["Inner", "Gen<i32>", "DataE", "TagE", "(i32, String)", "Vec<Inner>", "std::ops::Range<Inner>", "(Inner, Option<Gen<i32>>)", "[Inner; 64]", "[i32; 63]", "[i32; 65]"]:
        # container-level `as`: the binding the item would have if it were T: its declaration body is T's inline()
        pairs.append(("as-container", t, unit('#[ts(as = "%s")] pub struct @ { pub whatever: Opaque }' % t), unit("pub struct @(#[ts(inline)] pub %s);" % t)))
    for t, fields in FLAT.items():
        pairs.append(("flatten", t, unit("pub struct @ { #[ts(flatten)] pub f: %s, pub tail: String }" % t), unit("pub struct @ { %s, pub tail: String }" % fields)))
        pairs.append(("flatten-only", t, unit("pub struct @ { #[ts(flatten)] pub f: %s }" % t), unit("pub struct @ { %s }" % fields)))
    # several flattened fields next to each other (disjoint keys), with and without an own property, in a struct variant,
    # and such a struct flattened / inlined into another
    for bn, (t1, t2) in enumerate(TWO_FLAT):
        f1, f2 = FLAT[t1], FLAT[t2]
        lbl = "%s + %s" % (t1, t2)
        pairs.append(("flatten-two-only", lbl, unit("pub struct @ { #[ts(flatten)] pub f: %s, #[ts(flatten)] pub h: %s }" % (t1, t2)), unit("pub struct @ { %s, %s }" % (f1, f2))))
        pairs.append(("flatten-two", lbl, unit("pub struct @ { #[ts(flatten)] pub f: %s, pub tail: String, #[ts(flatten)] pub h: %s }" % (t1, t2)),
                      unit("pub struct @ { %s, pub tail: String, %s }" % (f1, f2))))
        v1, v2 = f1.replace("pub ", ""), f2.replace("pub ", "")
        for rep in ("", '#[ts(tag = "t", content = "c")] ', "#[ts(untagged)] "):
            pairs.append(("flatten-two-variant", "%s / %s" % (lbl, rep or "external"),
                          unit(rep + "pub enum @ { A { #[ts(flatten)] f: %s, #[ts(flatten)] h: %s }, B }" % (t1, t2)), unit(rep + "pub enum @ { A { %s, %s }, B }" % (v1, v2))))
        both, spelt = "Both%d" % bn, "BothSpelt%d" % bn      # (prelude types)
        pairs.append(("flatten-two-nested", lbl + " / flattened again", unit("pub struct @ { #[ts(flatten)] pub both: %s, pub z: bool }" % both), unit("pub struct @ { %s, %s, pub z: bool }" % (f1, f2))))
        pairs.append(("flatten-two-nested", lbl + " / inlined", unit("pub struct @ { #[ts(inline)] pub both: %s, pub z: bool }" % both), unit("pub struct @ { #[ts(inline)] pub both: %s, pub z: bool }" % spelt)))
    # the same type under two presentations in ONE item (by name and inlined / flattened, in both orders): each field
    # keeps its own presentation, and what the item depends on is the union
    for t, twin, fields in (("Inner", "InnerTwin", FLAT["Inner"]), ("Gen<Inner>", "GenTwin<Inner>", FLAT["Gen<Inner>"])):
        # (the twin has the same definition under another name: inlined, the two are the same text)
        pairs.append(("twice", "%s: inlined then by name" % t, unit("pub struct @ { #[ts(inline)] pub b: %s, pub a: %s }" % (t, t)),
                      unit("pub struct @ { #[ts(inline)] pub b: %s, pub a: %s }" % (twin, t))))
        pairs.append(("twice", "%s: by name then inlined" % t, unit("pub struct @ { pub b: %s, #[ts(inline)] pub a: %s }" % (t, t)),
                      unit("pub struct @ { pub b: %s, #[ts(inline)] pub a: %s }" % (t, twin))))
        if fields:
            pairs.append(("twice", "%s: flattened then by name" % t, unit("pub struct @ { #[ts(flatten)] pub b: %s, pub a: Option<%s> }" % (t, t)),
                          unit("pub struct @ { %s, pub a: Option<%s> }" % (fields, t))))
            pairs.append(("twice", "%s: by name then flattened" % t, unit("pub struct @ { pub a: Vec<%s>, #[ts(flatten)] pub b: %s }" % (t, t)),
                          unit("pub struct @ { pub a: Vec<%s>, %s }" % (t, fields))))
    for k, t in enumerate(FLAT_ENUMS):
        units.append(corpus.Unit("XE%d" % k, "pub type XE%d = %s;" % (k, t), [], serde=False))
        pairs.append(("flatten-enum", t, unit("pub struct @ { #[ts(flatten)] pub f: %s, pub tail: String }" % t), ("inter", "XOnlyTail", "XE%d" % k)))
        pairs.append(("flatten-enum-only", t, unit("pub struct @ { #[ts(flatten)] pub f: %s }" % t), ("inter", None, "XE%d" % k)))
    # a flattened map next to own properties / a tag / another flattened struct: the intersection of the parts
    for k, t in enumerate(["BTreeMap<String, i32>", "HashMap<String, Inner>", "BTreeMap<UnitE, Option<i32>>"]):
        units.append(corpus.Unit("XM%d" % k, "pub type XM%d = %s;" % (k, t), [], serde=False))
        pairs.append(("flatten-map", t, unit("pub struct @ { #[ts(flatten)] pub f: %s, pub tail: String }" % t), ("inter", "XOnlyTail", "XM%d" % k)))
        pairs.append(("flatten-map-only", t, unit("pub struct @ { #[ts(flatten)] pub f: %s }" % t), ("inter", None, "XM%d" % k)))
        pairs.append(("flatten-map-first", t, unit("pub struct @ { pub tail: String, #[ts(flatten)] pub f: %s }" % t), ("inter", "XOnlyTail", "XM%d" % k)))
    units.append(corpus.Unit("XOnlyTail", "pub type XOnlyTail = OnlyTail;", [], serde=False))
    # inlined inside flattened, flattened inside inlined
    for n_ in ("Mid1", "Mid2", "MidFlat"):
        units.append(corpus.Unit("X" + n_, "pub type X%s = %s;" % (n_, n_), [], serde=False))
    pairs.append(("nest", "inline inside flatten", unit("pub struct @ { #[ts(flatten)] pub f: Mid1, pub z: bool }"),
                  unit("pub struct @ { pub inner: Inner, pub m: i32, pub z: bool }")))
    pairs.append(("nest", "flatten inside inline", unit("pub struct @ { #[ts(inline)] pub f: Mid2, pub z: bool }"),
                  unit("pub struct @ { pub f: MidFlat, pub z: bool }")))
    pairs.append(("nest", "flatten of flatten", unit("pub struct @ { #[ts(flatten)] pub f: Mid2, pub z: bool }"),
                  unit("pub struct @ { pub x: i32, pub y: Option<String>, pub m: i32, pub z: bool }")))
    return units, pairs


def strip_attr(prog, attr):
    p = copy.deepcopy(prog)
    fs = p["fields"] if p["kind"] == "struct" else [f for v in p["variants"] for f in v["fields"]]
    for f in fs:
        f["attrs"] = [a for a in f["attrs"] if a != attr]
    return json.dumps(p, sort_keys=True)


def has_attr(prog, attr):
    fs = prog["fields"] if prog["kind"] == "struct" else [f for v in prog["variants"] for f in v["fields"]]
    return any(attr in f["attrs"] for f in fs)


def run(tier):
    t0 = time.time()
    v = vlib.Verdicts(PROP)
    units, obs, c, st = c01.observe(tier)
    env = bindlib.base_env(obs)
    groups = []          # (family, label, infoA, infoB, srcA, srcB)
    by_key = {}
    for u in units:
        if "prog" in u.meta and u.name in obs and not has_attr(u.meta["prog"], "inline") and "tag" not in u.meta["prog"]["cattrs"]:
            by_key[strip_attr(u.meta["prog"], "inline")] = u
    for u in units:
        if "prog" in u.meta and u.name in obs and has_attr(u.meta["prog"], "inline"):
            b = by_key.get(strip_attr(u.meta["prog"], "inline"))
            if b:
                ty = [f["ty"] for f in (u.meta["prog"]["fields"] if u.meta["prog"]["kind"] == "struct" else [f for vv in u.meta["prog"]["variants"] for f in vv["fields"]]) if "inline" in f["attrs"]]
                groups.append(("inline", "%s %s" % (u.meta["slice"], ty), obs[u.name]["info"], obs[b.name]["info"], u.src, b.src))
    punits, pairs = pres_units()
    pc = corpus.Corpus("pres", bindlib.helper_units() + punits, extra_prelude=PRELUDE)
    pobs = pc.observe()
    for fam, label, a, b in pairs:
        if isinstance(b, tuple):
            # the expected type is put together from real parts: inline() of the parent without the field, inline() of the flattened type
            if a.name in pc.rejected:
                v.fail({"prop": PROP, "family": fam, "case": label, "tag": "does_not_compile"}, {"a": a.src, "error": pc.rejected.get(a.name)})
                continue
            parts = [pobs[n]["info"]["inline"] for n in b[1:] if n]
            if any("ok" not in x for x in parts):
                raise ToolError("inline() of a part of %s: %s" % (label, parts))
            ts_ = [tsparse.strip(tsparse.parse_type(x["ok"])) for x in parts]
            body = ts_[0] if len(ts_) == 1 else {"k": "inter", "ts": ts_}
            groups.append((fam, label, pobs[a.name]["info"], {"record": {"name": "Expected", "params": [], "body": body}, "decl": {"ok": " & ".join("(%s)" % x["ok"] for x in parts)}},
                           a.src, "intersection of the real inline() of the parts"))
            continue
        if a.name in pc.rejected or b.name in pc.rejected:
            v.fail({"prop": PROP, "family": fam, "case": label, "tag": "does_not_compile"},
                   {"a": a.src, "b": b.src, "error": pc.rejected.get(a.name) or pc.rejected.get(b.name)})
            continue
        groups.append((fam, label, pobs[a.name]["info"], pobs[b.name]["info"], a.src, b.src))
    # what an item depends on is what its declaration names, whatever the presentations of its fields (TLC, FreeNames)
    import c03
    sitems, sunits = [], []
    for u in punits:
        info = pobs.get(u.name, {}).get("info")
        if info and "ok" in info["decl"] and "ok" in info["deps"] and u.src.lstrip().startswith("#[derive(TS)]"):
            sitems.append((info["decl"]["ok"], sorted({x[0] for x in info["deps"]["ok"]})))
            sunits.append(u)
    sbad, sdist, sgen = c03.static_closed(sitems, metatag="c14s")
    for k_ in sbad:
        v.fail({"prop": PROP, "family": "dependencies", "case": "an item of the presentation corpus", "tag": "dependencies_differ_from_names_used"},
               {"source": sunits[k_].src, "decl": sitems[k_][0], "dependencies": sitems[k_][1]})
    # extra declarations the pres corpus refers to
    env2 = dict(env)
    for n in ("XMid1", "XMid2", "XMidFlat", "XE1"):
        if n in pobs and "ok" in pobs[n]["info"]["decl"]:
            d = bindlib.decl_record(pobs[n]["info"]["decl"]["ok"])
            env2[d["name"]] = {"params": d["params"], "body": d["body"]}
    records, meta = [], []
    panics = 0
    for fam, label, ia, ib, sa, sb in groups:
        da, db = ia["decl"], ib["decl"]
        if "ok" not in da or "ok" not in db:
            panics += 1
            which = "A" if "ok" not in da else "B"
            v.fail({"prop": PROP, "family": fam, "case": label, "tag": "presentation_panics",
                    "message": (da if "ok" not in da else db).get("panic", "")[:60]},
                   {"a": sa, "b": sb, "decl_a": da, "decl_b": db, "panicking_side": which})
            continue
        try:
            ra, rb = bindlib.decl_record(da["ok"]), ib["record"] if "record" in ib else bindlib.decl_record(db["ok"])
        except tsparse.TsSyntaxError as e:
            v.fail({"prop": PROP, "family": fam, "case": label, "tag": "does_not_parse"}, {"a": da["ok"], "b": db["ok"], "error": str(e)})
            continue
        for src, dst, dirn in ((ra, rb, "A in B"), (rb, ra, "B in A")):
            e3 = dict(env2)
            e3[src["name"]] = {"params": src["params"], "body": src["body"]}
            for w in witness.witnesses(src["body"], e3, limit=10 if tier == "quick" else 30):
                records.append({"kind": "ser", "decls": [dst], "root": dst["body"], "json": tsparse.json_value(w), "accepted": True, "reser": {"k": "null"}})
                meta.append((fam, label, dirn, json.dumps(w), da["ok"], db["ok"], sa, sb))
    bad, tool, a = bindlib.adjudicate(records, env2, "c14")
    for i in sorted(bad):
        fam, label, dirn, w, da, db, sa, sb = meta[i - 1]
        import re
        unparen = bool(re.search(r'\} & [^({][^;]*\|', da) or re.search(r'\} & [^({][^;]*\|', db))
        v.fail({"prop": PROP, "family": fam, "case": label, "tag": "not_equivalent", "direction": dirn, "witness": w,
                "unparenthesised_union_after_intersection": unparen},
               {"witness": w, "decl_a": da, "decl_b": db, "a": sa, "b": sb})
    # inline() is the body of decl_concrete()
    n_inline = 0
    for o in list(obs.values()) + list(pobs.values()):
        i = o["info"]
        if "ok" in i["inline"] and "ok" in i["decl_concrete"]:
            n_inline += 1
            try:
                body = tsparse.strip(tsparse.parse_decl(i["decl_concrete"]["ok"])["body"])
                inl = tsparse.strip(tsparse.parse_type(i["inline"]["ok"]))
            except tsparse.TsSyntaxError:
                continue
            if body != inl:
                v.fail({"prop": PROP, "family": "inline-vs-decl", "case": o["name"], "tag": "not_equivalent"},
                       {"inline": i["inline"]["ok"], "decl_concrete": i["decl_concrete"]["ok"]})
    rc = v.finish()
    from collections import Counter
    cov = {"states": st["states"] + a.distinct, "transitions": st["transitions"] + a.generated,
           "traces_validated_against_impl": len(records),
           "samples": [{"family": m[0], "case": m[1], "direction": m[2], "witness": m[3], "a": m[6][:120], "b": m[7][:120]} for m in meta[:: max(1, len(meta) // 6)][:6]],
           "sibling_groups": len(groups), "by_family": dict(Counter(g[0] for g in groups)), "panicking_presentations": panics,
           "inline_vs_decl_concrete": n_inline, "exhaustive": False,
           "rule": "sibling groups: every program pair of the C01 corpus differing only by #[ts(inline)]; `as` at 6 positions x 14 type constructors; container `as`; flatten against hand-expanded structs; nestings. Equivalence = witnesses of each side (type-directed, 10/30 per side) inhabit the other side, decided by TLC"}
    vlib.write_evidence(PROP, tier, "model_checking", cov,
                        ["equivalence is decided on type-directed witnesses of both sides (bounded), not by a normal form",
                         "flatten is compared with hand-written expansions of the flattened structs"],
                        time.time() - t0, len(v.violations))
    return rc


def replay(path):
    print(json.dumps(json.load(open(path)), indent=1)[:3000])
    return 1
