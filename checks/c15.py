"""C15 - doc comments are carried over, contained, and never alter the type.

PREDICT    MC_Docs.tla: doc texts (lines over a token alphabet: words, empty line, `*/`, `/*`, a glob,
           `export type X`, quotes, backslash, non-ASCII, a 300-character line) x comment syntax
           (/// lines, #[doc = ..] attributes, one multi-line block) x position (container, named field,
           tuple field, variant, field of a struct variant, flattened field); the model renders the
           JSDoc block like parse_docs and says whether it lexes to exactly one comment.
REPLAY     each case is a real item (doc attributes exactly as rustc hands them to the derive) next to
           its undocumented sibling; export_to_string() of both, and the shared file written when the
           documented type is merged with a neighbour.
ADJUDICATE Trace_Module.tla: tokens without comments are identical to the sibling's (the type did not
           change); the comments are exactly the documented positions, each immediately before what it
           documents and containing the text."""
import json
import os
import shutil
import time

import c04
import corpus
import vlib
from vlib import ToolError, log

PROP = "C15"
TOKENS = [("word", "Some words."), ("empty", ""), ("close", "a */ b"), ("open", "a /* b"), ("glob", "see **/*.rs"),
          ("exporttype", "export type Zed = 1;"), ("dquote", 'say "hi"'), ("backslash", "back\\slash\\"), ("unicode", "naïve 日本語 ß"),
          ("long", "x" * 300), ("slashes", "// not a comment"), ("star", " * starred"),
          ("paren_open", "see (the other"), ("paren_close", "one) and } or ]"), ("brace_open", "a { b [ c")]
SYNTAX = ["line", "attr", "block", "mixed"]
TAIL = "tail words"
POSITIONS = {
    "container": ("$ pub struct @ { pub f: i32 }", "container"),
    "container_enum": ("$ pub enum @ { A, B { x: i32 } }", "container"),
    # documented items that also carry serde attributes (the docs and the serde lists are parsed side by side)
    "container_serde": ('$ #[derive(Serialize)] #[serde(rename_all = "camelCase")] pub struct @ { pub f_x: i32 }', "container"),
    "container_enum_serde": ('$ #[derive(Serialize)] #[serde(tag = "t")] pub enum @ { A, B { x: i32 } }', "container"),
    "field_serde": ('#[derive(Serialize)] pub struct @ { $ #[serde(rename = "g")] pub f: i32, pub h: String }', "g"),
    "variant_field_serde": ('#[derive(Serialize)] #[serde(rename_all_fields = "camelCase")] pub enum @ { A { $ #[serde(default)] x_y: i32 }, B }', "xY"),
    # the documented item is presented inside another type (flattened / inlined): its docs travel with it as text
    "flattened_enum_field": ("pub enum E_@ { A { $ x: i32 }, B } #[derive(TS)] pub struct @ { #[ts(flatten)] pub f: E_@ }", "x"),
    "flattened_two_enums_field": ('pub enum E_@ { A { $ x: i32 }, B } #[derive(TS)] #[ts(tag = "k")] pub enum F_@ { C { y: i32 }, D } '
                                  "#[derive(TS)] pub struct M_@ { #[ts(flatten)] pub e: E_@, #[ts(flatten)] pub f: F_@ } #[derive(TS)] pub struct @ { #[ts(flatten)] pub m: M_@ }", "x"),
    "inlined_struct_field": ("pub struct I_@ { $ pub x: i32 } #[derive(TS)] pub struct @ { #[ts(inline)] pub f: I_@, pub g: String }", "x"),
    "named_field": ("pub struct @ { $ pub f: i32, pub g: String }", "f"),
    "named_field_renamed": ('#[ts(rename_all = "kebab-case")] pub struct @ { $ pub foo_bar: i32, pub g: String }', "foo-bar"),
    "tuple_field": ("pub struct @($ pub i32, pub String);", None),
    "variant": ("pub enum @ { $ A, B }", None),
    "variant_field": ("pub enum @ { A { $ x: i32 }, B }", "x"),
    "flattened_field": ("pub struct @ { $ #[ts(flatten)] pub f: Inner, pub g: String }", None),
    "optional_field": ("pub struct @ { $ #[ts(optional)] pub f: Option<i32>, pub g: String }", "f"),
    "type_override_field": ('pub struct @ { $ #[ts(type = "string")] pub f: i32, pub g: String }', "f"),
}


def doc_attrs(lines, syntax):
    def lit(s):
        return '"' + s.replace("\\", "\\\\").replace('"', '\\"').replace("\n", "\\n") + '"'
    if syntax == "block":
        return "#[doc = %s]" % lit(" " + "\n".join(lines) + " ")
    if syntax == "mixed":
        return "#[doc = %s] #[doc = %s]" % (lit(" " + "\n".join(lines) + " "), lit(" " + TAIL))
    return " ".join("#[doc = %s]" % lit((" " if syntax == "line" else "") + l) for l in lines)


def build(tier):
    q = tier == "quick"
    cfgp = os.path.join(vlib.TMP, "docs-cfg.json")
    json.dump({"tokens": [{"name": n, "chars": c04.chars(t)} for n, t in TOKENS], "maxlines": 2 if q else 3, "tail": c04.chars(TAIL),
               "syntaxes": SYNTAX, "positions": list(POSITIONS)}, open(cfgp, "w"))
    r = vlib.run_tlc("MC_Docs", "MC_Docs.cfg", workers=12, env={"VERIF_CFG": cfgp}, timeout=1800, metatag="c15p")
    vlib.tlc_must_succeed(r, "MC_Docs")
    cases = r.payloads("CASE")
    if q:
        # all single lines; two-line texts only with an empty line or a comment terminator in them
        cases = [c for c in cases if len(c["lines"]) == 1 or any(TOKENS[t - 1][0] in ("empty", "close", "exporttype") for t in c["lines"])]
        core = ("container", "named_field", "variant_field", "flattened_enum_field", "container_serde")
        cases = [c for k, c in enumerate(cases) if len(c["lines"]) == 1 or (k % 3 == 0 and c["pos"] in core)]
    else:
        # every text of one or two lines at every position; three-line texts where they matter for the textual merge
        # (an empty line, a comment terminator or the words `export type` in them) at the core positions
        core = ("container", "named_field", "variant_field", "flattened_enum_field", "container_serde", "container_enum")
        special = ("empty", "close", "exporttype", "paren_open", "paren_close")
        cases = [c for c in cases if len(c["lines"]) <= 2 or
                 (c["pos"] in core and sum(1 for t in c["lines"] if TOKENS[t - 1][0] in special) >= 2)]
    units, n = [], 0
    for pos, (tmpl, key) in POSITIONS.items():
        units.append(corpus.Unit("Base_%s" % pos, "#[derive(TS)] " + tmpl.replace("$", "").replace("@", "Base_%s" % pos), [], serde=False, meta={"base": pos}))
    for c in cases:
        name = "K%d" % n
        n += 1
        lines = [TOKENS[t - 1][1] for t in c["lines"]]
        tmpl, key = POSITIONS[c["pos"]]
        doclines = lines + ([TAIL] if c["syntax"] == "mixed" else [])
        src = "#[derive(TS)] " + tmpl.replace("$", doc_attrs(lines, c["syntax"])).replace("@", name)
        units.append(corpus.Unit(name, src, [], serde=False, meta={"case": c, "lines": doclines, "key": key}))
    return units, r


def merged_units(tier):
    """documented type + neighbours in one shared file, exported through a root"""
    units = []
    n = 0
    texts = [["Some words."], ["first", "", "third"], ["first", "", "", "fourth"], ["", "", "", "x"], ["a */ b"], ["export type Zed = 1;"],
             # a doc line that starts (column 0 in a block comment) with the words `export type` and the NAME OF A NEIGHBOUR in the file
             ["first", "export type Aa@ = 1;"], ["x", "export type Zz@ = { z: 1 };", "export type Mm@ = 2;"], ["naïve 日本語 ß"], ["x" * 300],
             # more than 8 KiB of documentation in multi-byte characters, at two alignments (whatever reads the shared file
             # back in pieces must not cut a character)
             # (three-byte characters: 8 KiB are under 3000 characters; every line is different, so a damaged one is missed)
             ["%02d %s" % (k_, "日本語の説明文" * 40) for k_ in range(12)], ["x%02dy %s" % (k_, "説明文の日本語" * 40) for k_ in range(12)]]
    for lines in texts:
        for syntax in SYNTAX:
            for docpos in ("container", "field"):
                if len(lines) >= 12 and (syntax, docpos) not in ((SYNTAX[0], "container"), (SYNTAX[2], "field")):
                    continue        # (the long texts: two combinations each, they are expensive to lex character by character)
                name = "MG%d" % n
                n += 1
                d = doc_attrs(lines, syntax)
                doc_c = d if docpos == "container" else ""
                doc_f = d if docpos == "field" else ""
                items = ('#[derive(TS)] #[ts(export_to = "shared_@.ts")] %s pub struct Mm@ { %s pub f: i32 } '
                         '#[derive(TS)] #[ts(export_to = "shared_@.ts")] pub struct Aa@ { pub a: i32 } '
                         '#[derive(TS)] #[ts(export_to = "shared_@.ts")] pub struct Zz@ { pub z: Option<Box<Mm@>> } '
                         '#[derive(TS)] pub struct Root@ { pub m: Mm@, pub a: Aa@, pub z: Zz@ }') % (doc_c, doc_f)
                units.append(corpus.Unit(name, items.replace("@", name), [], serde=False,
                                         meta={"root_ty": "Root" + name, "lines": [l.replace("@", name) for l in lines] + ([TAIL] if syntax == "mixed" else []), "syntax": syntax, "docpos": docpos}))
    for docpos in ("none",):
        name = "MGbase"
        items = ('#[derive(TS)] #[ts(export_to = "shared_@.ts")] pub struct Mm@ { pub f: i32 } '
                 '#[derive(TS)] #[ts(export_to = "shared_@.ts")] pub struct Aa@ { pub a: i32 } '
                 '#[derive(TS)] #[ts(export_to = "shared_@.ts")] pub struct Zz@ { pub z: Option<Box<Mm@>> } '
                 '#[derive(TS)] pub struct Root@ { pub m: Mm@, pub a: Aa@, pub z: Zz@ }')
        units.append(corpus.Unit(name, items.replace("@", name), [], serde=False, meta={"root_ty": "Root" + name, "base": True}))
    return units


def run(tier):
    t0 = time.time()
    v = vlib.Verdicts(PROP)
    units, r = build(tier)
    munits = merged_units(tier)
    c = corpus.Corpus("docs", units + munits)
    obs = c.observe()
    if c.rejected:
        raise ToolError("doc corpus does not compile: %s" % json.dumps(c.rejected)[:1000])
    recs, meta = [], []

    def text_of(name):
        e = obs[name]["info"]["export_to_string"]
        return e.get("ok") if "ok" in e and not e["ok"].startswith("ERROR") else None

    model_uncontained = 0
    for u in units:
        if "case" not in u.meta:
            continue
        case = u.meta["case"]
        desc = {"prop": PROP, "position": case["pos"], "syntax": case["syntax"], "lines": [TOKENS[t - 1][0] for t in case["lines"]], "merged": False}
        if not case["contained"]:
            model_uncontained += 1
        t = text_of(u.name)
        base = text_of("Base_" + case["pos"])
        if t is None or base is None:
            v.fail(dict(desc, tag="export_to_string_fails"), {"source": u.src, "result": obs[u.name]["info"]["export_to_string"]})
            continue
        base = base.replace("Base_" + case["pos"], u.name)
        docs = []
        if u.meta["key"] is not None:
            key = u.name if u.meta["key"] == "container" else u.meta["key"]
            docs.append({"pos": "container" if u.meta["key"] == "container" else "field", "key": list(key),
                         "lines": [list(l.replace("\\", "")) for l in u.meta["lines"] if l.strip()]})
        recs.append({"kind": "c15", "chars": c04.chars(t), "notice": c04.chars(c04.NOTE), "names": [list(u.name)], "base": c04.chars(base), "docs": docs})
        meta.append((desc, u, t, base))
    # merged files
    sandbox = vlib.shm_dir("c15")
    try:
        reqs = []
        for k_, u in enumerate(munits):
            d = os.path.join(sandbox, u.name)
            os.makedirs(d)
            if k_ % 2:
                # what an earlier run left behind: the same file with LONGER documentation (the docs were shortened since)
                os.makedirs(os.path.join(d, "out"))
                with open(os.path.join(d, "out", "shared_%s.ts" % u.name), "w", encoding="utf-8") as f_:
                    f_.write(c04.NOTE + "\n\n/**\n" + "".join(" * an older, much longer description, line %d\n" % n_ for n_ in range(60)) +
                             " */\nexport type Mm%s = { /**\n * older field docs\n */\nf: number, gone: string, };\n\nexport type Old%s = { o: 1 };\n" % (u.name, u.name))
            reqs.append({"name": u.name, "cwd": d, "dir": "out"})
        res = {x["name"]: x["result"] for x in c.export(reqs)}
        shared = {}
        for u in munits:
            p = os.path.join(sandbox, u.name, "out", "shared_%s.ts" % u.name)
            shared[u.name] = open(p, encoding="utf-8").read() if os.path.exists(p) else None
        for u in munits:
            if u.meta.get("base"):
                continue
            desc = {"prop": PROP, "position": u.meta["docpos"], "syntax": u.meta["syntax"],
                    "lines": ["empty" if not l else ("close" if "*/" in l else "text") for l in u.meta["lines"]], "merged": True}
            t = shared[u.name]
            if res[u.name] != "Ok" or t is None or shared["MGbase"] is None:
                v.fail(dict(desc, tag="export_fails"), {"source": u.src, "result": res[u.name]})
                continue
            base = shared["MGbase"].replace("MGbase", u.name)
            key = ("Mm" + u.name) if u.meta["docpos"] == "container" else "f"
            docs = [{"pos": "container" if u.meta["docpos"] == "container" else "field", "key": list(key),
                     "lines": [list(l.replace("\\", "")) for l in u.meta["lines"] if l.strip()]}]
            recs.append({"kind": "c15", "chars": c04.chars(t), "notice": c04.chars(c04.NOTE), "names": [], "base": c04.chars(base), "docs": docs})
            meta.append((desc, u, t, base))
    finally:
        shutil.rmtree(sandbox, ignore_errors=True)
    tp = os.path.join(vlib.TMP, "docs-trace.ndjson")
    CH = 5000
    bads, adist, agen = [], 0, 0
    for off in range(0, len(recs), CH):
        chunk = recs[off:off + CH]
        vlib.write_ndjson(tp, chunk)
        a = vlib.run_tlc("Trace_Module", "Trace_Module.cfg", workers=12, env={"VERIF_TRACE": tp}, timeout=3000, tags=("BAD",), metatag="c15a", xmx="8g")
        vlib.tlc_must_succeed(a, "Trace_Module")
        if a.distinct != len(chunk) + 1:
            raise ToolError("adjudication judged %d of %d texts" % (a.distinct - 1, len(chunk)))
        adist += a.distinct
        agen += a.generated
        bads += [dict(b, rec=b["rec"] + off) for b in a.payloads("BAD")]

    class _A:
        distinct, generated = adist, agen
    a = _A
    for b in bads:
        desc, u, t, base = meta[b["rec"] - 1]
        v.fail(dict(desc, tags=b["tags"], has_comment_close="close" in desc["lines"]), {"source": u.src, "text": t, "undocumented_sibling": base})
    rc = v.finish()
    from collections import Counter
    cov = {"states": r.distinct + a.distinct, "transitions": r.generated + a.generated, "traces_validated_against_impl": len(recs),
           "samples": [{"case": m[0], "text": m[2][:300]} for m in meta[:: max(1, len(meta) // 6)][:6]],
           "cases": len(recs), "merged_file_cases": sum(1 for m in meta if m[0]["merged"]),
           "model_says_not_contained": model_uncontained, "by_position": dict(Counter(m[0]["position"] for m in meta)), "exhaustive": False,
           "rule": "doc texts of <= %d lines over 15 line tokens x 4 syntaxes (/// lines, #[doc] attributes, one block, block + line) x 17 positions (quick: all single lines, two-line texts containing an empty line / `*/` / `export type`); + 80 merged-file cases (documented type between two neighbours in a shared file)" % (2 if tier == "quick" else 3)}
    vlib.write_evidence(PROP, tier, "model_checking", cov,
                        ["doc comments are given to the derive as #[doc = ..] attributes, which is what rustc turns /// and /** */ into",
                         "containment of the text is checked modulo backslashes (an escaped `*/` still counts as the text)"],
                        time.time() - t0, len(v.violations))
    return rc


def replay(path):
    print(json.dumps(json.load(open(path)), indent=1, ensure_ascii=False)[:3000])
    return 1
