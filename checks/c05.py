"""C05 - several types in one file: order-independent, idempotent, lossless merge (sequential part;
the schedules part is in threads.py and is run from here as well)."""
import exportchecks
import repotests
import threads

PROP = "C05"


def stages(tier, v, stats, seed):
    threads.run(tier, v, stats, seed)
    # the repository's own integration tests, traced through the hook points and validated against the specification
    repotests.run(tier, v, stats)


def run(tier):
    return exportchecks.run_property(PROP, ["samefile", "samefile_all", "samefile_abs", "nasty", "imports", "underscore", "otherext", "faults"], tier, extra_stage=stages,
                                     extra_assumptions=["thread runs: a 60 ms pause inside the critical section is enough for a second thread to get in if the lock did not keep it out (probe); event order is a sequence number taken inside the hook callback"])


def replay(path):
    import json
    print(json.dumps(json.load(open(path))["descriptor"], indent=1))
    return 1
