"""C05 - several types in one file: order-independent, idempotent, lossless merge (sequential part;
the schedules part is in threads.py and is run from here as well)."""
import exportchecks

PROP = "C05"


def run(tier):
    return exportchecks.run_property(PROP, ["samefile", "samefile_all", "nasty"], tier)


def replay(path):
    import json
    print(json.dumps(json.load(open(path))["descriptor"], indent=1))
    return 1
