"""C05 - several types in one file: order-independent, idempotent, lossless merge (sequential part;
the schedules part is in threads.py and is run from here as well)."""
import exportchecks
import threads

PROP = "C05"


def run(tier):
    return exportchecks.run_property(PROP, ["samefile", "samefile_all", "nasty", "imports"], tier, extra_stage=threads.run,
                                     extra_assumptions=["thread runs: a 60 ms pause inside the critical section is enough for a second thread to get in if the lock did not keep it out (probe); event order is a sequence number taken inside the hook callback"])


def replay(path):
    import json
    print(json.dumps(json.load(open(path))["descriptor"], indent=1))
    return 1
