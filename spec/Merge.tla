------------------------------- MODULE Merge -------------------------------
(***************************************************************************)
(* The textual merge of ts-rs/src/export.rs (fn merge), at the granularity *)
(* at which the code itself cuts the text.                                 *)
(*                                                                         *)
(* A file - and the freshly rendered text of one declaration - is          *)
(*   [imports |-> Seq([spec |-> Codes, names |-> Seq(Codes)]),             *)
(*    blocks  |-> Seq(Block)]                                              *)
(* where the header is everything before the first blank line (the notice  *)
(* and the import lines) and the rest is cut into blocks at blank lines.   *)
(* A Block is [id |-> Nat, first |-> Codes, cands |-> Seq(Codes)]: `id`    *)
(* identifies its bytes, `first` is its first word, `cands` are the words  *)
(* following "export type " on each line that starts with it, in order.    *)
(* Codes are sequences of byte values: the code's `<` on &str is LexLess.  *)
(***************************************************************************)
EXTENDS Naturals, Sequences, FiniteSets, TLC

RECURSIVE LexLess(_, _)
LexLess(a, b) ==
  IF b = <<>> THEN FALSE
  ELSE IF a = <<>> THEN TRUE
  ELSE IF a[1] < b[1] THEN TRUE
  ELSE IF a[1] > b[1] THEN FALSE
  ELSE LexLess(Tail(a), Tail(b))

LexLeq(a, b) == a = b \/ LexLess(a, b)

\* ---------------------------------------------------------------- sorting helpers
\* insertion of x into a sequence sorted by Less (strict); equal elements are kept once
RECURSIVE InsertSorted(_, _)
InsertSorted(s, x) ==
  IF s = <<>> THEN <<x>>
  ELSE IF s[1] = x THEN s
  ELSE IF LexLess(x, s[1]) THEN <<x>> \o s
  ELSE <<s[1]>> \o InsertSorted(Tail(s), x)

RECURSIVE SortUnique(_)
SortUnique(s) == IF s = <<>> THEN <<>> ELSE InsertSorted(SortUnique(Tail(s)), s[1])

\* ---------------------------------------------------------------- imports
\* BTreeMap<&str, BTreeSet<&str>>: specifier -> names, both in byte order
RECURSIVE AddImport(_, _)
AddImport(m, line) ==       \* m: sequence sorted by spec, one entry per spec
  IF m = <<>> THEN <<[spec |-> line.spec, names |-> SortUnique(line.names)]>>
  ELSE IF m[1].spec = line.spec
       THEN <<[spec |-> line.spec, names |-> SortUnique(m[1].names \o line.names)]>> \o Tail(m)
  ELSE IF LexLess(line.spec, m[1].spec)
       THEN <<[spec |-> line.spec, names |-> SortUnique(line.names)]>> \o m
  ELSE <<m[1]>> \o AddImport(Tail(m), line)

RECURSIVE MergeImports(_, _)
MergeImports(m, lines) == IF lines = <<>> THEN m ELSE MergeImports(AddImport(m, lines[1]), Tail(lines))

\* ---------------------------------------------------------------- declaration keys
\* fn declared_name: the word following "export type " on the FIRST LINE THAT STARTS WITH it, or the
\* first word of the text when there is no such line ("" for a text without words).
\* (b.cands lists, in order, the words following "export type " at the start of a line.)
BlockKey(b) == IF b.cands = <<>> THEN b.first ELSE b.cands[1]

RECURSIVE AllCands(_)
AllCands(bs) == IF bs = <<>> THEN <<>> ELSE bs[1].cands \o AllCands(Tail(bs))

\* the new declaration is handled as ONE text, blank lines included
DeclKey(bs) == LET c == AllCands(bs) IN IF c = <<>> THEN bs[1].first ELSE c[1]

\* ---------------------------------------------------------------- fn merge
RECURSIVE InsertDecl(_, _, _, _)
InsertDecl(orig, new, newkey, inserted) ==
  IF orig = <<>> THEN (IF inserted THEN <<>> ELSE new)                       \* if !inserted { push new }
  ELSE IF inserted \/ LexLess(BlockKey(orig[1]), newkey)                      \* inserted || decl_name < new_decl_name
       THEN <<orig[1]>> \o InsertDecl(Tail(orig), new, newkey, inserted)
  ELSE new \o <<orig[1]>> \o InsertDecl(Tail(orig), new, newkey, TRUE)

Merge(orig, new) ==
  [imports |-> MergeImports(MergeImports(<<>>, orig.imports), new.imports),
   blocks  |-> InsertDecl(orig.blocks, new.blocks, DeclKey(new.blocks), FALSE)]

\* declared_name never panics (a text without words has the empty name); what is left of the
\* panics of fn merge are a file without a blank line after its header and a header line that is
\* not an import - both impossible for files the exporter wrote itself.
MergePanics(orig, new) == FALSE

(***************************************************************************)
(* What the property demands of a shared file holding the declarations D   *)
(* (a sequence of rendered declarations, any order): independent of Merge. *)
(***************************************************************************)
RECURSIVE ConcatImports(_)
ConcatImports(D) == IF D = <<>> THEN <<>> ELSE D[1].imports \o ConcatImports(Tail(D))

CanonImports(D) == MergeImports(<<>>, ConcatImports(D))

BlockIds(bs) == [i \in DOMAIN bs |-> bs[i].id]

\* position of the first occurrence of sub-sequence `sub` in `s` (0 if none)
OccursAt(s, sub, p) == p + Len(sub) - 1 <= Len(s) /\ SubSeq(s, p, p + Len(sub) - 1) = sub
Positions(s, sub) == { p \in 1..Len(s) : OccursAt(s, sub, p) }

\* every declaration's blocks are in the file contiguously, in order, exactly once; nothing else is
Lossless(file, D) ==
  LET ids == BlockIds(file.blocks) IN
  /\ \A i \in DOMAIN D : Cardinality(Positions(ids, BlockIds(D[i].blocks))) = 1
  /\ Len(ids) = LET RECURSIVE Sum(_)
                    Sum(k) == IF k = 0 THEN 0 ELSE Len(D[k].blocks) + Sum(k - 1)
                IN Sum(Len(D))

\* the position of declaration i in the file
PosOf(file, d) == CHOOSE p \in Positions(BlockIds(file.blocks), BlockIds(d.blocks)) : TRUE

\* declarations appear in name order; `name` is the declared identifier (Codes), `gname` the
\* identifier with its generic parameter list as written after `export type`.  The code orders
\* by the latter; ordering by the former is just as good a reading of "name order", so both are
\* accepted - a reversed or history-dependent order satisfies neither.
Lower(c) == IF c >= 65 /\ c <= 90 THEN c + 32 ELSE c
LowerAll(s) == [i \in DOMAIN s |-> Lower(s[i])]
OrderedBy(file, D, K(_)) ==
  \A i, j \in DOMAIN D : (i # j /\ LexLess(K(D[i]), K(D[j]))) => PosOf(file, D[i]) < PosOf(file, D[j])
NameOrder(file, D) ==
  \/ OrderedBy(file, D, LAMBDA d : d.name)
  \/ OrderedBy(file, D, LAMBDA d : d.gname)
  \/ OrderedBy(file, D, LAMBDA d : LowerAll(d.name))
  \/ OrderedBy(file, D, LAMBDA d : LowerAll(d.gname))

WellMerged(file, D) ==
  /\ file.imports = CanonImports(D)
  /\ Lossless(file, D)
  /\ NameOrder(file, D)

=============================================================================
