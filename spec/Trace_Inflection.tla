--------------------------- MODULE Trace_Inflection ---------------------------
(***************************************************************************)
(* ADJUDICATE for C09 / C16: records [id, pos, rule, ts, serde] hold the   *)
(* name the real derive put into the binding and the name the real         *)
(* serde_derive routine produces (either may be <<"PANIC">>).              *)
(***************************************************************************)
EXTENDS Inflection, Json, IOUtils
Rec == ndJsonDeserialize(IOEnv.VERIF_TRACE)
VARIABLE i
Init == i = 0
Next == i = 0 /\ i' \in DOMAIN Rec
Spec == Init /\ [][Next]_i
R == Rec[i]
Judge == i = 0 \/
  /\ (C09_Holds(R.ts, R.serde) \/ PrintT(<<"BAD09", ToJson(i)>>))
  /\ (C16_Holds(R.ts) \/ PrintT(<<"BAD16", ToJson(i)>>))
  \* (records of explicit renames carry the expected name itself: nothing is converted)
  /\ (R.verbatim \/ (R.ts = Ts(R.pos, R.rule, R.id) /\ R.serde = Serde(R.pos, R.rule, R.id)) \/ PrintT(<<"DRIFT", ToJson(i)>>))
=============================================================================
