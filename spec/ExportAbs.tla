----------------------------- MODULE ExportAbs -----------------------------
(***************************************************************************)
(* What the exporter is FOR, stated over the registry-and-files state of   *)
(* Export.tla and independently of how a call is carried out: the contents *)
(* of every written file are a function of the set of declarations         *)
(* exported to it (C05, C06), an Ok call has exported its whole closure to *)
(* the documented locations and touched nothing else (C11), failures are   *)
(* values and leave no trace in the registry (C17).                        *)
(***************************************************************************)
EXTENDS Export, SequencesExt

\* the declaration a TypeScript identifier stands for (all instantiations of a generic type share it)
\* U.decls: TypeScript identifier -> name of one type declaring it
DeclOfIdent(id) ==
  LET n == U.decls[id] IN
  [imports |-> T(n).rendered.imports, blocks |-> T(n).rendered.blocks,
   name |-> T(n).nameCodes, gname |-> T(n).gnameCodes]

IdentsAt(reg, p) == { r[2] : r \in { r \in reg : r[1] = p } }
RegPaths(reg) == { r[1] : r \in reg }

DeclsAt(reg, p) == SetToSeq({ DeclOfIdent(id) : id \in IdentsAt(reg, p) })

\* -- canonical contents: what exporting the same declarations in name order produces
RECURSIVE SortDecls(_)
SortDecls(ds) ==       \* insertion sort by gname
  IF ds = <<>> THEN <<>>
  ELSE LET rest == SortDecls(Tail(ds))
           RECURSIVE Ins(_)
           Ins(s) == IF s = <<>> THEN <<ds[1]>>
                     ELSE IF LexLess(ds[1].gname, s[1].gname) THEN <<ds[1]>> \o s
                     ELSE <<s[1]>> \o Ins(Tail(s))
       IN Ins(rest)

RECURSIVE FoldMerge(_, _)
FoldMerge(file, ds) == IF ds = <<>> THEN file
                       ELSE FoldMerge(Merge(file, [imports |-> ds[1].imports, blocks |-> ds[1].blocks]), Tail(ds))

CanonFile(ds) == LET s == SortDecls(ds) IN
  FoldMerge([imports |-> MergeImports(<<>>, s[1].imports), blocks |-> s[1].blocks], Tail(s))

\* -- the properties, on a state S
\* C05 / C06: every file the registry knows is exactly the canonical file of the names registered for it
FileCanonical(S, p) == HasFile(S, p) /\ S.files[p].blocks = CanonFile(DeclsAt(S.reg, p)).blocks
                                     /\ S.files[p].imports = CanonFile(DeclsAt(S.reg, p)).imports
FileWellMerged(S, p) == HasFile(S, p) /\ WellMerged(S.files[p], DeclsAt(S.reg, p))

Quiescent(S) == \A t \in DOMAIN S.thr : S.thr[t].pc = "idle"
InSection(S) == S.lock # 0

\* holds whenever nobody is inside export_and_merge (in particular at quiescence)
\* (a file the environment has moved aside is not the exporter's to answer for until it is back)
C05_C06_State(S) == ~InSection(S) => \A p \in RegPaths(S.reg) : HiddenByEnv(S, p) \/ (FileCanonical(S, p) /\ FileWellMerged(S, p))

\* C17: failures are values; the lock is never poisoned; a registered name is in its file
C17_State(S) == /\ ~S.poisoned
                /\ \A t \in DOMAIN S.thr : S.thr[t].ret # "Panic"

\* C11 / C06: after an Ok call, everything in the closure is registered at its documented location
CallDone(S, c) == \A n \in Closure(c) : <<Loc(c.dir, n), T(n).ident>> \in S.reg
=============================================================================
