----------------------------- MODULE TsGrammar -----------------------------
(***************************************************************************)
(* The grammar of an exported file, independent of ts-rs and of the        *)
(* harness's parser: a recursive-descent recogniser over the tokens of     *)
(* Lexical.tla (comments removed).  Every operator takes the token         *)
(* sequence and a position and returns the position after what it          *)
(* recognised, or 0.                                                       *)
(*                                                                         *)
(*   Module  ::= Import* Export*                                           *)
(*   Import  ::= import type { id (, id)* } from str ;                     *)
(*   Export  ::= export type id TypeParams? = Type ;                       *)
(*   TypeParams ::= < id (= Type)? (, id (= Type)?)* >                     *)
(*   Type    ::= |? Inter (| Inter)*                                       *)
(*   Inter   ::= &? Postfix (& Postfix)*                                   *)
(*   Postfix ::= Primary ([ ])*                                            *)
(*   Primary ::= str | num | ( Type ) | [ (Type (, Type)* ,?)? ]           *)
(*             | { Member* } | id (< Type (, Type)* >)?                    *)
(*   Member  ::= (id | str | num) ?? : Type (, | ;)?                       *)
(*             | [ id in Type ] ?? : Type (, | ;)?                         *)
(***************************************************************************)
EXTENDS Lexical

W(s) == s      \* words are written as character sequences
kwImport == <<"i", "m", "p", "o", "r", "t">>
kwExport == <<"e", "x", "p", "o", "r", "t">>
kwType   == <<"t", "y", "p", "e">>
kwFrom   == <<"f", "r", "o", "m">>
kwIn     == <<"i", "n">>

At(ts, i) == i >= 1 /\ i <= Len(ts)
IsP(ts, i, c) == At(ts, i) /\ ts[i].t = "p" /\ ts[i].v = <<c>>
IsId(ts, i) == At(ts, i) /\ ts[i].t = "id"
IsWord(ts, i, w) == IsId(ts, i) /\ ts[i].v = w
IsStr(ts, i) == At(ts, i) /\ ts[i].t = "str"
IsNum(ts, i) == At(ts, i) /\ ts[i].t = "num"

\* the recogniser is bounded by `fuel` so that TLC's evaluation terminates on any input
RECURSIVE PType(_, _, _), PUnionTail(_, _, _), PInter(_, _, _), PInterTail(_, _, _), PPostfix(_, _, _), PArrayTail(_, _)
RECURSIVE PPrimary(_, _, _), PTypeList(_, _, _, _), PMembers(_, _, _), PMember(_, _, _)

PType(ts, i, fuel) ==
  IF fuel = 0 THEN 0 ELSE
  LET s == IF IsP(ts, i, "|") THEN i + 1 ELSE i
      j == PInter(ts, s, fuel - 1) IN
  IF j = 0 THEN 0 ELSE PUnionTail(ts, j, fuel - 1)
PUnionTail(ts, i, fuel) ==
  IF fuel = 0 THEN 0 ELSE
  IF IsP(ts, i, "|") THEN (LET j == PInter(ts, i + 1, fuel - 1) IN IF j = 0 THEN 0 ELSE PUnionTail(ts, j, fuel - 1)) ELSE i
PInter(ts, i, fuel) ==
  IF fuel = 0 THEN 0 ELSE
  LET s == IF IsP(ts, i, "&") THEN i + 1 ELSE i
      j == PPostfix(ts, s, fuel - 1) IN
  IF j = 0 THEN 0 ELSE PInterTail(ts, j, fuel - 1)
PInterTail(ts, i, fuel) ==
  IF fuel = 0 THEN 0 ELSE
  IF IsP(ts, i, "&") THEN (LET j == PPostfix(ts, i + 1, fuel - 1) IN IF j = 0 THEN 0 ELSE PInterTail(ts, j, fuel - 1)) ELSE i
PPostfix(ts, i, fuel) ==
  IF fuel = 0 THEN 0 ELSE
  LET j == PPrimary(ts, i, fuel - 1) IN IF j = 0 THEN 0 ELSE PArrayTail(ts, j)
PArrayTail(ts, i) == IF IsP(ts, i, "[") /\ IsP(ts, i + 1, "]") THEN PArrayTail(ts, i + 2) ELSE i

\* Type (, Type)* with an optional trailing comma, closed by `close`; returns the position after `close`
PTypeList(ts, i, close, fuel) ==
  IF fuel = 0 THEN 0 ELSE
  IF IsP(ts, i, close) THEN i + 1
  ELSE LET j == PType(ts, i, fuel - 1) IN
       IF j = 0 THEN 0
       ELSE IF IsP(ts, j, ",") THEN PTypeList(ts, j + 1, close, fuel - 1)
       ELSE IF IsP(ts, j, close) THEN j + 1 ELSE 0

PPrimary(ts, i, fuel) ==
  IF fuel = 0 THEN 0 ELSE
  IF IsStr(ts, i) \/ IsNum(ts, i) THEN i + 1
  ELSE IF IsP(ts, i, "(") THEN (LET j == PType(ts, i + 1, fuel - 1) IN IF j # 0 /\ IsP(ts, j, ")") THEN j + 1 ELSE 0)
  ELSE IF IsP(ts, i, "[") THEN PTypeList(ts, i + 1, "]", fuel - 1)
  ELSE IF IsP(ts, i, "{") THEN PMembers(ts, i + 1, fuel - 1)
  ELSE IF IsId(ts, i) THEN
       (IF IsP(ts, i + 1, "<")
        THEN (IF IsP(ts, i + 2, ">") THEN 0 ELSE PTypeList(ts, i + 2, ">", fuel - 1))
        ELSE i + 1)
  ELSE 0

\* members up to and including the closing brace
PMembers(ts, i, fuel) ==
  IF fuel = 0 THEN 0 ELSE
  IF IsP(ts, i, "}") THEN i + 1
  ELSE LET j == PMember(ts, i, fuel - 1) IN
       IF j = 0 THEN 0
       ELSE IF IsP(ts, j, ",") \/ IsP(ts, j, ";") THEN PMembers(ts, j + 1, fuel - 1)
       ELSE IF IsP(ts, j, "}") THEN j + 1 ELSE 0

PMember(ts, i, fuel) ==
  IF fuel = 0 THEN 0 ELSE
  IF IsP(ts, i, "[")
  THEN (IF IsId(ts, i + 1) /\ IsWord(ts, i + 2, kwIn)
        THEN LET j == PType(ts, i + 3, fuel - 1) IN
             IF j = 0 \/ ~IsP(ts, j, "]") THEN 0
             ELSE LET k == IF IsP(ts, j + 1, "?") THEN j + 2 ELSE j + 1 IN
                  IF IsP(ts, k, ":") THEN PType(ts, k + 1, fuel - 1) ELSE 0
        ELSE 0)
  ELSE IF IsId(ts, i) \/ IsStr(ts, i) \/ IsNum(ts, i)
       THEN LET k == IF IsP(ts, i + 1, "?") THEN i + 2 ELSE i + 1 IN
            IF IsP(ts, k, ":") THEN PType(ts, k + 1, fuel - 1) ELSE 0
  ELSE 0

RECURSIVE PIdList(_, _), PTypeParams(_, _, _), PModule(_, _, _, _)
\* id (, id)* }  -> position after }
PIdList(ts, i) ==
  IF ~IsId(ts, i) THEN 0
  ELSE IF IsP(ts, i + 1, ",") THEN PIdList(ts, i + 2)
  ELSE IF IsP(ts, i + 1, "}") THEN i + 2 ELSE 0

PImport(ts, i) ==
  IF IsWord(ts, i, kwImport) /\ IsWord(ts, i + 1, kwType) /\ IsP(ts, i + 2, "{")
  THEN LET j == PIdList(ts, i + 3) IN
       IF j # 0 /\ IsWord(ts, j, kwFrom) /\ IsStr(ts, j + 1) /\ IsP(ts, j + 2, ";") THEN j + 3 ELSE 0
  ELSE 0

\* id (= Type)? (, ...)* >  -> position after >
PTypeParams(ts, i, fuel) ==
  IF fuel = 0 \/ ~IsId(ts, i) THEN 0
  ELSE LET j == IF IsP(ts, i + 1, "=") THEN PType(ts, i + 2, fuel - 1) ELSE i + 1 IN
       IF j = 0 THEN 0
       ELSE IF IsP(ts, j, ",") THEN PTypeParams(ts, j + 1, fuel - 1)
       ELSE IF IsP(ts, j, ">") THEN j + 1 ELSE 0

PExport(ts, i, fuel) ==
  IF IsWord(ts, i, kwExport) /\ IsWord(ts, i + 1, kwType) /\ IsId(ts, i + 2)
  THEN LET j == IF IsP(ts, i + 3, "<") THEN PTypeParams(ts, i + 4, fuel) ELSE i + 3 IN
       IF j # 0 /\ IsP(ts, j, "=")
       THEN LET k == PType(ts, j + 1, fuel) IN IF k # 0 /\ IsP(ts, k, ";") THEN k + 1 ELSE 0
       ELSE 0
  ELSE 0

\* imports first, then exports; returns TRUE iff the whole token sequence is consumed
PModule(ts, i, seenExport, fuel) ==
  IF i = Len(ts) + 1 THEN TRUE
  ELSE IF fuel = 0 THEN FALSE
  ELSE IF ~seenExport /\ IsWord(ts, i, kwImport)
       THEN (LET j == PImport(ts, i) IN j # 0 /\ PModule(ts, j, FALSE, fuel - 1))
  ELSE LET j == PExport(ts, i, 200) IN j # 0 /\ PModule(ts, j, TRUE, fuel - 1)

NoComments(ts) == SelectSeq(ts, LAMBDA t : t.t # "cmt")
ParsesAsModule(ts) == PModule(NoComments(ts), 1, FALSE, 200)

\* names declared by `export type <id>` at the start of a declaration (bracket depth 0)
RECURSIVE DeclaredFrom(_, _)
DeclaredFrom(ts, i) ==
  IF i + 2 > Len(ts) THEN <<>>
  ELSE IF IsWord(ts, i, kwExport) /\ IsWord(ts, i + 1, kwType) /\ IsId(ts, i + 2)
       THEN <<ts[i + 2].v>> \o DeclaredFrom(ts, i + 3)
  ELSE DeclaredFrom(ts, i + 1)
Declared(ts) == DeclaredFrom(NoComments(ts), 1)
=============================================================================
