----------------------------- MODULE MC_Lexical -----------------------------
(***************************************************************************)
(* PREDICT for C04: every string up to MaxLen over an alphabet of          *)
(* character classes that separates the cases of the lexer and of ts-rs's  *)
(* quoting (letter, digit, _, $, space, -, ", ', \, *, /, non-ASCII        *)
(* letter, non-ASCII digit, line break), the empty string included.  Model verdict per string: the text *)
(* ts-rs would write around it lexes to exactly one key token.             *)
(***************************************************************************)
EXTENDS Lexical, Json
CONSTANT MaxLen
Alphabet == { Ch("a", "letter"), Ch("1", "digit"), Ch("_", "letter"), Ch("$", "letter"), Ch(" ", "space"), Ch("-", "other"),
              Ch("\"", "punct"), Ch("'", "punct"), Ch("\\", "punct"), Ch("*", "punct"), Ch("/", "punct"), Ch("é", "letter"),
              Ch("\n", "nl"), Ch("{", "punct"), Ch("}", "punct"), Ch("٣", "cdigit") }
VARIABLE s
Init == s = <<>>
Next == Len(s) < MaxLen /\ \E c \in Alphabet : s' = Append(s, c)
Spec == Init /\ [][Next]_s
FieldKeyOK == OneKeyToken(FieldKey(s))          \* a property name produced by rename / rename_all
QuotedOK == OneKeyToken(Quoted(s))              \* a variant name, tag or content literal
\* model verdict on the transcription of the (repaired) quoting: whatever the string, one key token
Model_C04 == FieldKeyOK /\ QuotedOK
EmitCase == PrintT(<<"CASE", ToJson([s |-> [k \in DOMAIN s |-> s[k].c], field_ok |-> FieldKeyOK, quoted_ok |-> QuotedOK])>>)
=============================================================================
