------------------------------ MODULE Lexical ------------------------------
(***************************************************************************)
(* A TypeScript lexer as a state machine over characters - the independent *)
(* reading of an exported file that C04 and C15 ask for - and the quoting  *)
(* decisions of ts-rs (macros/src/utils.rs) transcribed next to it.        *)
(*                                                                         *)
(* A character is a record [c |-> one-character string, k |-> class] with  *)
(* class in {"letter", "digit", "cdigit", "space", "nl", "punct", "other"}; *)
(* "letter" covers everything that may start an identifier ($ and _        *)
(* included), "digit" the ASCII digits, "cdigit" the other decimal digits  *)
(* (they continue an identifier but start neither an identifier nor a      *)
(* numeric literal).                                                       *)
(* A token is [t |-> kind, v |-> text (sequence of characters), nl |->     *)
(* a line break precedes it] with kind in {"id", "num", "str", "p", "cmt"}.*)
(***************************************************************************)
EXTENDS Naturals, Sequences, TLC

Ch(c, k) == [c |-> c, k |-> k]
Tok(t, v) == [t |-> t, v |-> v]
LexError == <<Tok("ERROR", <<>>)>>

Puncts == {"{", "}", "[", "]", "(", ")", "<", ">", ",", ";", ":", "?", "|", "&", "=", "."}

\* lexer state: [mode, cur (text of the token being read), out (tokens so far)]
\* modes: "default" "id" "num" "dq" "sq" "dqesc" "sqesc" "slash" "line" "block" "blockstar" "error"
LexInit == [mode |-> "default", cur |-> <<>>, out |-> <<>>]

Emit(st, t) == [mode |-> "default", cur |-> <<>>, out |-> Append(st.out, Tok(t, st.cur))]
Err(st) == [st EXCEPT !.mode = "error"]

RECURSIVE LexStep(_, _)
LexStep(st, ch) ==
  CASE st.mode = "error" -> st
    [] st.mode = "default" ->
         IF ch.k \in {"space", "nl"} THEN st
         ELSE IF ch.k = "letter" THEN [st EXCEPT !.mode = "id", !.cur = <<ch.c>>]
         ELSE IF ch.k = "digit" THEN [st EXCEPT !.mode = "num", !.cur = <<ch.c>>]
         ELSE IF ch.c = "\"" THEN [st EXCEPT !.mode = "dq", !.cur = <<>>]
         ELSE IF ch.c = "'" THEN [st EXCEPT !.mode = "sq", !.cur = <<>>]
         ELSE IF ch.c = "/" THEN [st EXCEPT !.mode = "slash"]
         ELSE IF ch.c \in Puncts THEN [st EXCEPT !.out = Append(@, Tok("p", <<ch.c>>))]
         ELSE Err(st)                                            \* `, \, *, -, #, @ ... outside strings and comments
    [] st.mode = "id" ->
         IF ch.k \in {"letter", "digit", "cdigit"} THEN [st EXCEPT !.cur = Append(@, ch.c)]
         ELSE LexStep(Emit(st, "id"), ch)
    [] st.mode = "num" ->
         IF ch.k = "digit" \/ ch.c = "." THEN [st EXCEPT !.cur = Append(@, ch.c)]
         ELSE IF ch.k \in {"letter", "cdigit"} THEN Err(st)        \* 1abc
         ELSE LexStep(Emit(st, "num"), ch)
    [] st.mode \in {"dq", "sq"} ->
         IF ch.k = "nl" THEN Err(st)                             \* unterminated string literal
         ELSE IF ch.c = "\\" THEN [st EXCEPT !.mode = IF st.mode = "dq" THEN "dqesc" ELSE "sqesc", !.cur = Append(@, ch.c)]
         ELSE IF (st.mode = "dq" /\ ch.c = "\"") \/ (st.mode = "sq" /\ ch.c = "'") THEN Emit(st, "str")
         ELSE [st EXCEPT !.cur = Append(@, ch.c)]
    [] st.mode \in {"dqesc", "sqesc"} ->
         IF ch.k = "nl" THEN Err(st)
         ELSE [st EXCEPT !.mode = IF st.mode = "dqesc" THEN "dq" ELSE "sq", !.cur = Append(@, ch.c)]
    [] st.mode = "slash" ->
         IF ch.c = "/" THEN [st EXCEPT !.mode = "line", !.cur = <<"/", "/">>]
         ELSE IF ch.c = "*" THEN [st EXCEPT !.mode = "block", !.cur = <<"/", "*">>]
         ELSE Err(st)                                            \* a division sign has no place in a type
    [] st.mode = "line" ->
         IF ch.k = "nl" THEN Emit(st, "cmt") ELSE [st EXCEPT !.cur = Append(@, ch.c)]
    [] st.mode = "block" ->
         IF ch.c = "*" THEN [st EXCEPT !.mode = "blockstar", !.cur = Append(@, ch.c)]
         ELSE [st EXCEPT !.cur = Append(@, ch.c)]
    [] st.mode = "blockstar" ->
         IF ch.c = "/" THEN Emit([st EXCEPT !.cur = Append(@, ch.c)], "cmt")
         ELSE IF ch.c = "*" THEN [st EXCEPT !.cur = Append(@, ch.c)]
         ELSE [st EXCEPT !.mode = "block", !.cur = Append(@, ch.c)]

RECURSIVE LexFold(_, _, _)
LexFold(st, chars, i) == IF i > Len(chars) THEN st ELSE LexFold(LexStep(st, chars[i]), chars, i + 1)

\* end of input: flush an identifier / number / line comment; anything else still open is an error
LexEnd(st) ==
  CASE st.mode = "default" -> st.out
    [] st.mode = "id" -> Emit(st, "id").out
    [] st.mode = "num" -> Emit(st, "num").out
    [] st.mode = "line" -> Emit(st, "cmt").out
    [] OTHER -> LexError                                         \* unterminated string / block comment, stray slash, error

Lex(chars) == LexEnd(LexFold(LexInit, chars, 1))
LexOK(toks) == toks # LexError

(***************************************************************************)
(* ts-rs: how names reach the output (macros/src/utils.rs)                 *)
(***************************************************************************)
\* raw_name_to_ts_field: alphanumeric / _ / $ only, and not starting with a digit (and not empty) => bare,
\* else "value"; the value between the quotes is escaped (escape_ts_string: backslash, double quote, line break)
NeedsQuotes(name) ==
  \/ \E i \in DOMAIN name : name[i].k \notin {"letter", "digit", "cdigit"}
  \/ (name # <<>> /\ name[1].k \in {"digit", "cdigit"})          \* char::is_numeric
DQ == Ch("\"", "punct")
BSl == Ch("\\", "punct")
RECURSIVE EscapeTs(_)
EscapeTs(cs) == IF cs = <<>> THEN <<>>
                ELSE (IF cs[1].c = "\\" THEN <<BSl, BSl>>
                      ELSE IF cs[1].c = "\"" THEN <<BSl, DQ>>
                      ELSE IF cs[1].k = "nl" THEN <<BSl, Ch("n", "letter")>>
                      ELSE <<cs[1]>>) \o EscapeTs(Tail(cs))
FieldKey(name) == IF NeedsQuotes(name) \/ name = <<>> THEN <<DQ>> \o EscapeTs(name) \o <<DQ>> ELSE name
\* variant names, tags and contents are always written between double quotes, escaped
Quoted(name) == <<DQ>> \o EscapeTs(name) \o <<DQ>>

\* the property's view: the rendered key must lex to exactly one token (an identifier or a string)
OneKeyToken(chars) == LET t == Lex(chars) IN LexOK(t) /\ Len(t) = 1 /\ t[1].t \in {"id", "str"}
=============================================================================
