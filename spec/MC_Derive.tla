------------------------------ MODULE MC_Derive ------------------------------
(***************************************************************************)
(* PREDICT for C01 on the MODEL of the derive and of serde: the programs   *)
(* of a slice of Programs.tla, each with the declared type Bind(p), the    *)
(* JSON Ser(p, v) of every generated value, and the model verdict          *)
(* C01_Model(p).  The predictions are compared with the real decl() and    *)
(* the real serde_json output by the check (conformance of Derive.tla).    *)
(***************************************************************************)
EXTENDS Programs
D == INSTANCE Derive

Vals(p) == LET vs == SetToSeq(D!Values(p)) IN [i \in DOMAIN vs |-> [variant |-> vs[i][1], k |-> vs[i][2], json |-> D!Ser(p, vs[i])]]
EmitPred == (stage = "done" /\ WellFormed) =>
   PrintT(<<"PRED", ToJson([prog |-> prog, ts |-> D!Bind(prog), params |-> D!Params(prog), root |-> D!Root(prog), values |-> Vals(prog), model_ok |-> D!C01_Model(prog)])>>)
=============================================================================
