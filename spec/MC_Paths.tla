------------------------------ MODULE MC_Paths ------------------------------
(***************************************************************************)
(* PREDICT for C08: enumerate every (base, importing file, imported file)  *)
(* up to a depth bound, check the property on the model of import_path,    *)
(* and emit each case with the model's prediction.                         *)
(***************************************************************************)
EXTENDS Paths, Json, IOUtils

CONSTANT MaxDepth, Small

\* measured by the harness: the working directory the real calls run in, and import-esm on/off
Cfg  == JsonDeserialize(IOEnv.VERIF_CFG)
Cwd  == P(TRUE, Cfg.cwd)
Esm  == Cfg.esm

DirNames  == IF Small THEN { Dot, DotDot, <<"d">>, <<"x", ".", "y">> }
             ELSE { Dot, DotDot, <<"d">>, <<"D">>, <<".", "h">>, <<".", ".", "v">>, <<"x", ".", "y">>, <<"d", ".", "t", "s">> }
             \* (d, D: two different directories on a case-sensitive file system)
             \* (.h, ..v: ordinary names that begin with dots - a specifier still has to start with ./ or ../)
FileNames == { <<"A", ".", "t", "s">>, <<"a", ".", "b", ".", "t", "s">>, <<"t", "s", ".", "t", "s">>,
               <<"x", ".", "t", "s", ".", "t", "s">>, <<"j", ".", "j", "s", ".", "t", "s">>, <<".", "h", ".", "t", "s">> }

\* spellings of the export directory
Bases == { P(FALSE, <<Dot, <<"b">>>>),                            \* ./b          (the default shape)
           P(TRUE,  Cwd.cs \o <<<<"b">>>>),                       \* absolute
           P(TRUE,  <<<<"r">>>>) }                                \* /r : shallow, so that ../.. leaves the root
         \cup (IF Cfg.fewbases THEN {} ELSE
           { P(FALSE, <<<<"b">>>>),                               \* b
             P(FALSE, <<<<"o">>, DotDot, <<"b">>, Dot>>) })       \* o/../b/.

\* The importing file's own name never enters the computation (only its directory does), so it
\* is fixed; the imported file ranges over all names.  Paths are grown one component per step so
\* that all TLC workers share the enumeration.
FromFile == <<"A", ".", "t", "s">>

VARIABLES base, from, to, stage
vars == <<base, from, to, stage>>

Init == base \in Bases /\ from = <<>> /\ to = <<>> /\ stage = "from"

GrowFrom   == /\ stage = "from" /\ Len(from) < MaxDepth
              /\ \E d \in DirNames : from' = Append(from, d)
              /\ UNCHANGED <<base, to, stage>>
FinishFrom == /\ stage = "from" /\ from' = Append(from, FromFile) /\ stage' = "to"
              /\ UNCHANGED <<base, to>>
GrowTo     == /\ stage = "to" /\ Len(to) < MaxDepth
              /\ \E d \in DirNames : to' = Append(to, d)
              /\ UNCHANGED <<base, from, stage>>
FinishTo   == /\ stage = "to" /\ \E f \in FileNames : to' = Append(to, f)
              /\ stage' = "done" /\ UNCHANGED <<base, from>>
Next == GrowFrom \/ FinishFrom \/ GrowTo \/ FinishTo
Spec == Init /\ [][Next]_vars

FromP == Join(base, P(FALSE, from))
ToP   == Join(base, P(FALSE, to))
Pred  == ModelResult(Cwd, FromP, ToP, Esm)

\* the property, on the model of the code
ModelHolds == stage = "done" => C08_Holds(Cwd, FromP, ToP, Esm, Pred)

Emit == stage = "done" => PrintT(<<"CASE", ToJson([base |-> base, from |-> from, to |-> to, pred |-> Pred])>>)
=============================================================================
