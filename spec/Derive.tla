------------------------------- MODULE Derive -------------------------------
(***************************************************************************)
(* The binding function of the derive and serde's wire format, transcribed *)
(* over the program descriptors of Programs.tla:                           *)
(*    Bind(p)      the TypeScript type ts-rs declares for p                *)
(*                 (macros/src/types/{mod,named,enum,newtype,tuple,unit}.rs*)
(*                 arm for arm, deliberate quirks included)                *)
(*    Values(p)    the generated values of p (choices per variant / field) *)
(*    Ser(p, v)    the JSON serde_json writes for it (serde_derive 1.0.215)*)
(* so that C01 can be stated and checked ON THE MODEL:                     *)
(*    C01_Model(p) == \A v \in Values(p) : Ser(p, v) defined =>            *)
(*                        Inhabits(Ser(p, v), Bind(p), Env)               *)
(* Everything about the field TYPES (their TypeScript names, inline and    *)
(* flattened forms, the JSON of their sample values) and about the helper  *)
(* declarations is MEASURED from the real code and read from the           *)
(* configuration; what is transcribed here is how the derive and serde     *)
(* COMPOSE them.                                                           *)
(***************************************************************************)
EXTENDS TsTypes, Json, IOUtils

DCfg == JsonDeserialize(IOEnv.VERIF_DERIVE)
\* DCfg.ty[token]: [name, inl, flat, oname, oinl (Option inner, = name/inl for non-Options), isopt, flatok,
\*                  vals (sequence of JSON values), none (sequence of BOOLEAN: the sample is None),
\*                  unitvar (sequence of BOOLEAN: the sample is a unit variant of an externally tagged enum)]
\* DCfg.fieldnames[rule], DCfg.variantnames[rule]: sequences of names under the container's rename_all ("" = none)
\* DCfg.env: name -> [params, body] of the helper declarations;  DCfg.leadname[rule]: name of the leading unit variant

Has(attrs, a) == \E i \in DOMAIN attrs : attrs[i] = a
TI(t) == DCfg.ty[t]
Lit(s) == [k |-> "lit", v |-> s]
Obj(ms) == [k |-> "obj", ms |-> ms, idx |-> <<>>]
Mem(key, opt, ty) == [key |-> key, opt |-> opt, ty |-> ty]
Null == Kw("null")
NoneT == [k |-> "none"]
Inter(ts) == IF Len(ts) = 1 THEN ts[1] ELSE [k |-> "inter", ts |-> ts]
UnionT(ts) == IF Len(ts) = 1 THEN ts[1] ELSE [k |-> "union", ts |-> ts]

RuleOf(attrs) ==
  IF Has(attrs, "rename_all") THEN "camelCase" ELSE IF Has(attrs, "rename_all_kebab") THEN "kebab-case"
  ELSE IF Has(attrs, "rename_all_snake") THEN "snake_case" ELSE IF Has(attrs, "rename_all_upper") THEN "SCREAMING_SNAKE_CASE" ELSE ""

(***************************************************************************)
(* named.rs: format_field / named                                          *)
(***************************************************************************)
\* the field's TypeScript type and `?`
FieldOpt(f, of) == Has(f.attrs, "optional") \/ Has(f.attrs, "optional_ssi") \/ Has(f.attrs, "optional_nullable") \/ (of /\ TI(f.ty).isopt)
\* (several `optional` attributes on one field merge by Optional::or: nullable if any of them says so)
FieldNullable(f, of) == IF Has(f.attrs, "optional_nullable") THEN TRUE
                        ELSE IF Has(f.attrs, "optional") \/ Has(f.attrs, "optional_ssi") THEN FALSE
                        ELSE ~of                           \* #[ts(optional_fields)] is the non-nullable form
FieldTy(f, of) ==
  LET ti == TI(f.ty) nullable == FieldNullable(f, of) IN
  IF Has(f.attrs, "inline") THEN (IF nullable THEN ti.inl ELSE ti.oinl)
  ELSE (IF nullable THEN ti.name ELSE ti.oname)

QName == "q\"u\\o\nn"       \* the rename value of the attribute token rename_q: q"u\o, a line break, n
FieldKey(i, f, rule) == IF Has(f.attrs, "rename") THEN "Renamed_field" ELSE IF Has(f.attrs, "rename_q") THEN QName ELSE DCfg.fieldnames[rule][i]

RECURSIVE NamedMembers(_, _, _, _)
NamedMembers(fs, i, rule, of) ==
  IF i > Len(fs) THEN <<>>
  ELSE (IF Has(fs[i].attrs, "skip") \/ Has(fs[i].attrs, "flatten") THEN <<>>
        ELSE <<Mem(FieldKey(i, fs[i], rule), FieldOpt(fs[i], of), FieldTy(fs[i], of))>>)
       \o NamedMembers(fs, i + 1, rule, of)
RECURSIVE Flattened(_, _)
Flattened(fs, i) == IF i > Len(fs) THEN <<>>
                    ELSE (IF Has(fs[i].attrs, "flatten") /\ ~Has(fs[i].attrs, "skip") THEN <<TI(fs[i].ty).flat>> ELSE <<>>) \o Flattened(fs, i + 1)

\* `tagmem`: <<>> or the one-element sequence holding the tag member
Named(fs, rule, of, tagmem) ==
  LET ms == tagmem \o NamedMembers(fs, 1, rule, of)
      fl == Flattened(fs, 1) IN
  IF ms = <<>> /\ fl = <<>> THEN Obj(<<>>)                 \* "{  }"
  ELSE IF fl = <<>> THEN Obj(ms)
  ELSE IF ms = <<>> THEN Inter(fl)
  ELSE Inter(<<Obj(ms)>> \o fl)

(***************************************************************************)
(* types/mod.rs: type_def by shape                                         *)
(***************************************************************************)
PlainTy(f) == IF Has(f.attrs, "inline") THEN TI(f.ty).inl ELSE TI(f.ty).name
RECURSIVE TupleElems(_, _)
TupleElems(fs, i) == IF i > Len(fs) THEN <<>>
                     ELSE (IF Has(fs[i].attrs, "skip") THEN <<>> ELSE <<PlainTy(fs[i])>>) \o TupleElems(fs, i + 1)

Body(shape, fs, rule, of, tagmem) ==
  CASE shape \in {"named", "struct1", "struct2"} -> Named(fs, rule, of, tagmem)
    [] shape = "named0" -> IF tagmem = <<>> THEN [k |-> "ref", n |-> "Record", as |-> <<Kw("string"), Never>>]
                           ELSE Obj(tagmem)
    [] shape = "tuple0" -> [k |-> "array", e |-> Never]
    [] shape = "newtype" -> IF Has(fs[1].attrs, "skip") THEN Null ELSE PlainTy(fs[1])
    [] shape = "tuple" -> [k |-> "tuple", es |-> TupleElems(fs, 1)]
    [] shape = "unit" -> Null

SelfName == "Self"          \* the generated item's own name (the harness substitutes the real one)
StructName(p) == IF Has(p.cattrs, "rename") THEN "RenamedType" ELSE SelfName

BindStruct(p) ==
  Body(p.shape, p.fields, RuleOf(p.cattrs), Has(p.cattrs, "optional_fields"),
       IF Has(p.cattrs, "tag") THEN <<Mem("type", FALSE, Lit(StructName(p)))>> ELSE <<>>)

(***************************************************************************)
(* enum.rs: format_variant                                                 *)
(***************************************************************************)
VName(p, i, v) == IF Has(v.attrs, "rename") THEN "renamed_Variant" ELSE IF Has(v.attrs, "rename_q") THEN QName ELSE DCfg.variantnames[RuleOf(p.cattrs)][i]
VRule(p, v) == IF Has(v.attrs, "rename_all") THEN "camelCase" ELSE IF Has(v.attrs, "rename_all_kebab") THEN "kebab-case"
               ELSE IF v.shape \in {"named0", "struct1", "struct2"} /\ Has(p.cattrs, "rename_all_fields") THEN "camelCase" ELSE ""
IsNamedV(v) == v.shape \in {"named0", "struct1", "struct2"}
Untagged(p, v) == Has(v.attrs, "untagged") \/ p.repr = "unt"

\* the variant's own definition (types::type_def on a StructAttr made by from_variant)
VariantBody(p, i, v) ==
  Body(v.shape, v.fields, VRule(p, v), FALSE,
       IF IsNamedV(v) /\ p.repr = "int" /\ ~Has(v.attrs, "untagged") THEN <<Mem("t", FALSE, Lit(VName(p, i, v)))>> ELSE <<>>)

NewtypeSkipped(v) == v.shape = "newtype" /\ Has(v.fields[1].attrs, "skip")
\* the payload of a tagged newtype variant: inline() when the field is inlined, else name()
NewtypeTy(v) == PlainTy(v.fields[1])

\* `format!("{{ .. }} & {}", ty)`: the payload is pasted as TEXT.  By name, a union (`T | null`) is not
\* parenthesised, so `&` binds to its first arm only; an inlined payload is written in parentheses.
TextInter(tagobj, ty, inlined) ==
  IF ~inlined /\ ty.k = "union" THEN UnionT(<<Inter(<<tagobj, ty.ts[1]>>)>> \o Tail(ty.ts))
  ELSE Inter(<<tagobj, ty>>)

Variant(p, i, v) ==
  LET n == VName(p, i, v) body == VariantBody(p, i, v) IN
  IF Untagged(p, v) THEN body
  ELSE CASE p.repr = "ext" ->
              IF v.shape = "unit" \/ NewtypeSkipped(v) THEN Lit(n) ELSE Obj(<<Mem(n, FALSE, body)>>)
         [] p.repr = "adj" ->
              IF v.shape = "unit" \/ NewtypeSkipped(v) THEN Obj(<<Mem("t", FALSE, Lit(n))>>)
              ELSE IF v.shape = "newtype" THEN Obj(<<Mem("t", FALSE, Lit(n)), Mem("c", FALSE, NewtypeTy(v))>>)
              ELSE Obj(<<Mem("t", FALSE, Lit(n)), Mem("c", FALSE, body)>>)
         [] p.repr = "int" ->
              IF IsNamedV(v) THEN body                                   \* the struct carries the tag itself
              ELSE IF v.shape = "unit" \/ NewtypeSkipped(v) THEN Obj(<<Mem("t", FALSE, Lit(n))>>)
              ELSE IF v.shape = "newtype" THEN TextInter(Obj(<<Mem("t", FALSE, Lit(n))>>), NewtypeTy(v), Has(v.fields[1].attrs, "inline"))
              ELSE Inter(<<Obj(<<Mem("t", FALSE, Lit(n))>>), body>>)

LeadV == [shape |-> "unit", attrs |-> <<>>, fields |-> <<>>]
AllVariants(p) == <<LeadV>> \o p.variants
RECURSIVE VariantArms(_, _)
VariantArms(p, i) ==
  LET vs == AllVariants(p) IN
  IF i > Len(vs) THEN <<>>
  ELSE (IF Has(vs[i].attrs, "skip") THEN <<>> ELSE <<Variant(p, i, vs[i])>>) \o VariantArms(p, i + 1)

BindEnum(p) == UnionT(VariantArms(p, 1))
Bind(p) == IF p.kind = "struct" THEN BindStruct(p) ELSE BindEnum(p)
DeclName(p) == StructName(p)

(***************************************************************************)
(* Values and serde                                                        *)
(***************************************************************************)
NVals(fs) == LET RECURSIVE Mx(_)
                 Mx(i) == IF i > Len(fs) THEN 1
                          ELSE LET n == Len(TI(fs[i].ty).vals) m == Mx(i + 1) IN IF n > m THEN n ELSE m
             IN LET m == Mx(1) IN IF m > 3 THEN 3 ELSE m
ValIdx(f, k) == ((k - 1) % Len(TI(f.ty).vals)) + 1        \* the k-th generated value takes the k-th sample of every field (cyclically)
FVal(f, k) == TI(f.ty).vals[ValIdx(f, k)]
FNone(f, k) == TI(f.ty).none[ValIdx(f, k)]

JObj(entries) == [k |-> "obj", v |-> entries]
JArr(vs) == [k |-> "arr", v |-> vs]
JStr(s) == [k |-> "str", v |-> s]
JNull == [k |-> "null"]
E(key, val) == <<key, val, FALSE>>
SerErr == [k |-> "error"]
IsSerErr(j) == j.k = "error"
ErrEntry == <<"#ERR", JNull, FALSE>>

\* entries of a named struct body; SerErr if a flattened value is not an object
RECURSIVE NamedEntries(_, _, _, _)
NamedEntries(fs, i, rule, k) ==
  IF i > Len(fs) THEN <<>>
  ELSE LET f == fs[i] rest == NamedEntries(fs, i + 1, rule, k) IN
       IF Has(f.attrs, "skip") THEN rest
       ELSE IF Has(f.attrs, "optional_ssi") /\ FNone(f, k) THEN rest          \* skip_serializing_if = "Option::is_none"
       ELSE IF Has(f.attrs, "flatten") THEN (IF FVal(f, k).k = "obj" THEN FVal(f, k).v \o rest ELSE <<ErrEntry>> \o rest)
       ELSE <<E(FieldKey(i, f, rule), FVal(f, k))>> \o rest
HasErr(entries) == \E i \in DOMAIN entries : entries[i][1] = "#ERR"

RECURSIVE TupleVals(_, _, _)
TupleVals(fs, i, k) == IF i > Len(fs) THEN <<>>
                       ELSE (IF Has(fs[i].attrs, "skip") THEN <<>> ELSE <<FVal(fs[i], k)>>) \o TupleVals(fs, i + 1, k)

\* content of a struct / variant body of the given shape (serde ignores `skip` on the field of a newtype STRUCT)
Content(shape, fs, rule, k, isvariant) ==
  CASE shape \in {"named", "struct1", "struct2", "named0"} -> JObj(NamedEntries(fs, 1, rule, k))
    [] shape = "tuple0" -> JArr(<<>>)
    [] shape = "tuple" -> JArr(TupleVals(fs, 1, k))
    [] shape = "newtype" -> FVal(fs[1], k)
    [] shape = "unit" -> JNull

SerStruct(p, k) ==
  LET rule == RuleOf(p.cattrs)
      c == Content(p.shape, p.fields, rule, k, FALSE) IN
  IF p.shape \in {"named", "named0"}
  THEN LET es == (IF Has(p.cattrs, "tag") THEN <<E("type", JStr(StructName(p)))>> ELSE <<>>) \o c.v IN
       IF HasErr(es) THEN SerErr ELSE JObj(es)
  ELSE c

SerVariant(p, i, v, k) ==
  LET n == VName(p, i, v)
      c == Content(v.shape, v.fields, VRule(p, v), k, TRUE)
      bad == IsNamedV(v) /\ HasErr(c.v) IN
  IF bad THEN SerErr
  ELSE IF Untagged(p, v) THEN (IF NewtypeSkipped(v) THEN JNull ELSE c)
  ELSE CASE p.repr = "ext" ->
              IF v.shape = "unit" \/ NewtypeSkipped(v) THEN JStr(n) ELSE JObj(<<E(n, c)>>)
         [] p.repr = "adj" ->
              IF v.shape = "unit" \/ NewtypeSkipped(v) THEN JObj(<<E("t", JStr(n))>>)
              ELSE JObj(<<E("t", JStr(n)), E("c", c)>>)
         [] p.repr = "int" ->
              IF v.shape = "unit" \/ NewtypeSkipped(v) THEN JObj(<<E("t", JStr(n))>>)
              ELSE IF v.shape = "newtype" /\ TI(v.fields[1].ty).isopt THEN SerErr    \* serde: "tagged newtype variant containing an optional"
              ELSE IF c.k = "obj" THEN JObj(<<E("t", JStr(n))>> \o c.v)
              ELSE IF c.k = "str" /\ v.shape = "newtype" /\ TI(v.fields[1].ty).unitvar[ValIdx(v.fields[1], k)]
                   THEN JObj(<<E("t", JStr(n)), E(c.v, JNull)>>)               \* a unit variant inside a tagged map
              ELSE IF c.k = "null" /\ v.shape = "newtype" /\ v.fields[1].ty = "unit" THEN JObj(<<E("t", JStr(n))>>)   \* newtype around ()
              ELSE SerErr                                                    \* serde: cannot serialize a non-map into a tagged map

\* a generated value: [variant index (0 for structs), k]
Values(p) ==
  IF p.kind = "struct" THEN { <<0, k>> : k \in 1..NVals(p.fields) }
  ELSE LET vs == AllVariants(p) IN
       UNION { IF Has(vs[i].attrs, "skip") THEN {} ELSE { <<i, k>> : k \in 1..NVals(vs[i].fields) } : i \in DOMAIN vs }
Ser(p, val) == IF p.kind = "struct" THEN SerStruct(p, val[2]) ELSE SerVariant(p, val[1], AllVariants(p)[val[1]], val[2])

\* a generic program `P<T>` is declared once, with its parameter; what a value of the instantiation P<A> has to
\* inhabit is the reference P<name of A> (TS::name()), resolved through that declaration
Params(p) == IF p.garg = "" THEN <<>> ELSE <<"T">>
Root(p) == IF p.garg = "" THEN Bind(p) ELSE [k |-> "ref", n |-> DeclName(p), as |-> <<TI(p.garg).name>>]
Env(p) == [n \in DOMAIN DCfg.env \cup {DeclName(p)} |-> IF n = DeclName(p) THEN [params |-> Params(p), body |-> Bind(p)] ELSE DCfg.env[n]]

C01_Model(p) == \A val \in Values(p) : LET j == Ser(p, val) IN IsSerErr(j) \/ Inhabits(j, Root(p), Env(p))
=============================================================================
