------------------------------- MODULE Reach -------------------------------
(***************************************************************************)
(* What `export_all` / `export_all_to` of a root has to write (C11), as    *)
(* the documentation states it - independent of the generated              *)
(* visit_dependencies():                                                   *)
(*                                                                         *)
(*  Dependencies.  A type depends on the user types it refers to BY NAME   *)
(*  (directly, as an argument of a generic or a container, through         *)
(*  `as = ".."`, as the default of a type parameter) and on the            *)
(*  dependencies of every type it INLINES or FLATTENS (not on that type    *)
(*  itself).  An export with dependencies covers the root and everything   *)
(*  reachable over that relation.                                          *)
(*                                                                         *)
(*  Locations.  base directory joined with the relative output path:       *)
(*  `<TypeScript name>.ts` without export_to; export_to + `<name>.ts` when *)
(*  export_to ends in `/`; export_to verbatim otherwise.                   *)
(*                                                                         *)
(* named, through: functions from type to the set of types referred to by  *)
(* name / inlined or flattened.                                            *)
(***************************************************************************)
EXTENDS Paths, FiniteSets

RECURSIVE DepsOf(_, _, _, _)
DepsOf(t, named, through, fuel) ==
  named[t] \cup (IF fuel = 0 THEN {} ELSE UNION { DepsOf(u, named, through, fuel - 1) : u \in through[t] })

RECURSIVE Closure(_, _, _)
Closure(S, named, through) ==
  LET T == S \cup UNION { DepsOf(t, named, through, 4) : t \in S } IN
  IF T = S THEN S ELSE Closure(T, named, through)

Reachable(root, named, through) == Closure({root}, named, through)

\* et = [given |-> BOOLEAN, dirform |-> BOOLEAN, cs |-> components of export_to], tsname: characters
FileName(tsname) == tsname \o TsExt
RelPath(tsname, et) ==
  IF ~et.given THEN <<FileName(tsname)>>
  ELSE IF et.dirform THEN et.cs \o <<FileName(tsname)>>
  ELSE et.cs

\* the file (components from the root of the file system) that is written; Err above the root
Location(cwd, dir, tsname, et) == Normal(cwd, Join(dir, P(FALSE, RelPath(tsname, et))))
=============================================================================
