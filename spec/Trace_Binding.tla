---------------------------- MODULE Trace_Binding ----------------------------
(***************************************************************************)
(* ADJUDICATE for C01 / C02 / C12: a record holds what the real code       *)
(* produced for one value of one generated type:                           *)
(*   decls  the declarations it contributes (name, params, body) - parsed  *)
(*          from the real TS::decl()                                       *)
(*   root   the type the value must inhabit - parsed from the real         *)
(*          TS::name() (C01/C02) or TS::inline()/name() (C12)              *)
(*   json   the real serde_json output for the value (kind "ser"), or a    *)
(*          witness drawn from the declared type (kind "wit") together     *)
(*          with what serde's Deserialize did with it (accepted, reser)    *)
(*   other  (kind "same") a second type that has to be the same as root    *)
(* BaseEnv holds the declarations of the helper types, parsed from their   *)
(* real decl() as well.  The verdict is Inhabits(..) of TsTypes.tla.       *)
(***************************************************************************)
EXTENDS TsTypes, Json, IOUtils

Rec     == ndJsonDeserialize(IOEnv.VERIF_TRACE)
BaseEnv == JsonDeserialize(IOEnv.VERIF_ENV)

VARIABLE i
Init == i = 0
Next == i = 0 /\ i' \in DOMAIN Rec
Spec == Init /\ [][Next]_i
R == Rec[i]

OwnNames == { R.decls[n].name : n \in DOMAIN R.decls }
Env == [n \in DOMAIN BaseEnv \cup OwnNames |->
          IF n \in OwnNames THEN LET k == CHOOSE k \in DOMAIN R.decls : R.decls[k].name = n IN
                                 [params |-> R.decls[k].params, body |-> R.decls[k].body]
          ELSE BaseEnv[n]]

SerOK == Inhabits(R.json, R.root, Env)
\* C02: the witness really inhabits the declared type (else the harness is wrong: TOOL), is accepted, and what
\* comes back out inhabits the type again
WitIn  == Inhabits(R.json, R.root, Env)
WitOK  == R.accepted /\ Inhabits(R.reser, R.root, Env)

\* C12, "transparent wrappers are their content": the two presentations are the same type
SameOK == R.root = R.other

Judge == i = 0 \/
  IF R.kind = "same" THEN SameOK \/ PrintT(<<"BAD", ToJson(i)>>)
  ELSE IF R.kind = "ser" THEN SerOK \/ PrintT(<<"BAD", ToJson(i)>>)
  ELSE /\ (WitIn \/ PrintT(<<"TOOL", ToJson(i)>>))
       /\ (~WitIn \/ WitOK \/ PrintT(<<"BAD", ToJson(i)>>))
=============================================================================
