----------------------------- MODULE Trace_Attrs -----------------------------
(***************************************************************************)
(* ADJUDICATE for C16: records [item, real, compiled, free].               *)
(***************************************************************************)
EXTENDS Attrs, Json, IOUtils
Rec == ndJsonDeserialize(IOEnv.VERIF_TRACE)
VARIABLE i
Init == i = 0
Next == i = 0 /\ i' \in DOMAIN Rec
Spec == Init /\ [][Next]_i
R == Rec[i]
PredEq == (R.real = "OK") = (Outcome(R.item) \in {"Accept", "RejectAtTypeck"})
\* free-form items (no descriptor, no prediction): totality only - no panic, a rejection is a compile error of the
\* real entry point, an accepted item compiles
FreeOK == /\ C16_NoPanic(R.real, R.compiled) /\ C16_EntryPoint(R.real, R.compiled)
          /\ ((R.real = "OK" /\ R.compiled # "na") => R.compiled = "ok")
JudgeItem ==
  /\ (C16_NoPanic(R.real, R.compiled) \/ PrintT(<<"BADPANIC", ToJson(i)>>))
  /\ (C16_EntryPoint(R.real, R.compiled) \/ PrintT(<<"BADENTRY", ToJson(i)>>))
  /\ (C16_Diagnosed(R.item, R.real, R.compiled) \/ PrintT(<<"BADSILENT", ToJson(i)>>))
  /\ (C16_Compiles(R.item, R.real, R.compiled) \/ PrintT(<<"BADCOMPILE", ToJson(i)>>))
  /\ (PredEq \/ PrintT(<<"DRIFT", ToJson(i)>>))
Judge == IF i = 0 THEN TRUE
         ELSE IF R.free THEN FreeOK \/ PrintT(<<"BADFREE", ToJson(i)>>)
         ELSE JudgeItem
=============================================================================
