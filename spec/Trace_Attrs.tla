----------------------------- MODULE Trace_Attrs -----------------------------
(***************************************************************************)
(* ADJUDICATE for C16: records [item, real, compiled].                     *)
(***************************************************************************)
EXTENDS Attrs, Json, IOUtils
Rec == ndJsonDeserialize(IOEnv.VERIF_TRACE)
VARIABLE i
Init == i = 0
Next == i = 0 /\ i' \in DOMAIN Rec
Spec == Init /\ [][Next]_i
R == Rec[i]
PredEq == (R.real = "OK") = (Outcome(R.item) \in {"Accept", "RejectAtTypeck"})
Judge == i = 0 \/
  /\ (C16_NoPanic(R.real, R.compiled) \/ PrintT(<<"BADPANIC", ToJson(i)>>))
  /\ (C16_EntryPoint(R.real, R.compiled) \/ PrintT(<<"BADENTRY", ToJson(i)>>))
  /\ (C16_Diagnosed(R.item, R.real, R.compiled) \/ PrintT(<<"BADSILENT", ToJson(i)>>))
  /\ (C16_Compiles(R.item, R.real, R.compiled) \/ PrintT(<<"BADCOMPILE", ToJson(i)>>))
  /\ (PredEq \/ PrintT(<<"DRIFT", ToJson(i)>>))
=============================================================================
