------------------------------ MODULE Builtins ------------------------------
(***************************************************************************)
(* The built-in impls of ts-rs for library types (ts-rs/src/lib.rs:        *)
(* impl_primitives!, impl_wrapper!, impl_shadow!, impl_tuples! and the     *)
(* hand-written impls for Option, Result, Vec, [T; N], HashMap, Range,     *)
(* Weak, PhantomData) as a function on TYPE TERMS, next to serde's         *)
(* representation of their values (serde 1.0.215 with the `rc` feature,    *)
(* serde_json), so that C12 can be stated and checked ON THE MODEL for     *)
(* every composition up to a depth bound:                                  *)
(*    C12_Model(t) == \A v \in Vals(t) : Inhabits(Ser(t, v), Name(t))      *)
(*                                                                         *)
(* A term is [c |-> constructor or leaf, as |-> <<argument terms>>].       *)
(* Everything about the LEAVES (TypeScript name, JSON of the sample        *)
(* values, their text as a JSON object key) is measured from the real      *)
(* code and read from the configuration; what is transcribed here is how   *)
(* the constructors compose.                                               *)
(***************************************************************************)
EXTENDS TsTypes, Json, IOUtils

BCfg == JsonDeserialize(IOEnv.VERIF_BUILTINS)
\* BCfg.leaf[name] = [ts, vals (JSON values), keys ([s, num] of each sample as an object key; <<>> if not a key type)]
\* BCfg.env: declarations of the user types among the leaves
\* BCfg.leaves, BCfg.keyleaves, BCfg.hashleaves, BCfg.copyleaves, BCfg.second, BCfg.levels, BCfg.depth: the domain of the run

T(c, as) == [c |-> c, as |-> as]
IsLeaf(t) == t.as = <<>>
Null == Kw("null")
Arr(e) == [k |-> "array", e |-> e]
Tup(es) == [k |-> "tuple", es |-> es]
Un(ts) == [k |-> "union", ts |-> ts]
ObjT(ms, idx) == [k |-> "obj", ms |-> ms, idx |-> idx]
Mem(key, ty) == [key |-> key, opt |-> FALSE, ty |-> ty]

Transparent == {"Box", "Rc", "Arc", "Cow", "Cell", "RefCell", "Mutex", "RwLock", "Ref"}
Sequences_ == {"Vec", "HashSet", "BTreeSet", "Slice"}

(***************************************************************************)
(* TS::name() of a term                                                    *)
(***************************************************************************)
RECURSIVE Name(_)
Name(t) ==
  IF IsLeaf(t) THEN BCfg.leaf[t.c].ts
  ELSE CASE t.c \in Transparent -> Name(t.as[1])                          \* impl_wrapper!
    [] t.c = "Option" -> Un(<<Name(t.as[1]), Null>>)
    [] t.c = "Weak" -> Un(<<Name(t.as[1]), Null>>)
    [] t.c = "PhantomData" -> Null
    [] t.c \in Sequences_ -> Arr(Name(t.as[1]))                             \* Vec and its shadows
    [] t.c = "Array2" -> Tup(<<Name(t.as[1]), Name(t.as[1])>>)            \* [T; N], N <= ARRAY_TUPLE_LIMIT
    [] t.c = "Array0" -> Tup(<<>>)
    [] t.c = "Tuple1" -> Tup(<<Name(t.as[1])>>)
    [] t.c = "Tuple2" -> Tup(<<Name(t.as[1]), Name(t.as[2])>>)
    [] t.c = "Tuple3" -> Tup(<<Name(t.as[1]), Name(t.as[2]), Name(t.as[3])>>)
    [] t.c \in {"HashMap", "BTreeMap"} ->
         ObjT(<<>>, <<[kty |-> Name(t.as[1]), opt |-> TRUE, vty |-> Name(t.as[2])]>>)     \* { [key in K]?: V }
    [] t.c = "Result" -> Un(<<ObjT(<<Mem("Ok", Name(t.as[1]))>>, <<>>), ObjT(<<Mem("Err", Name(t.as[2]))>>, <<>>)>>)
    [] t.c \in {"Range", "RangeInclusive"} -> ObjT(<<Mem("start", Name(t.as[1])), Mem("end", Name(t.as[1]))>>, <<>>)

(***************************************************************************)
(* Values (abstract) and their JSON                                        *)
(*   [f |-> form, i |-> index, vs |-> <<values>>]                          *)
(***************************************************************************)
V(f, i, vs) == [f |-> f, i |-> i, vs |-> vs]
Take(s, n) == IF Len(s) <= n THEN s ELSE SubSeq(s, 1, n)
LastOf(s) == s[Len(s)]

RECURSIVE Vals(_)
Vals(t) ==
  IF IsLeaf(t) THEN [i \in DOMAIN BCfg.leaf[t.c].vals |-> V("leaf", i, <<>>)]
  ELSE LET a == Vals(t.as[1]) IN
  CASE t.c \in Transparent -> [i \in DOMAIN Take(a, 2) |-> V("wrap", 0, <<a[i]>>)]
    [] t.c = "Option" -> <<V("none", 0, <<>>)>> \o [i \in DOMAIN Take(a, 2) |-> V("some", 0, <<a[i]>>)]
    [] t.c = "Weak" -> <<V("dead", 0, <<>>)>>
    [] t.c = "PhantomData" -> <<V("phantom", 0, <<>>)>>
    [] t.c \in {"Vec", "Slice"} -> <<V("seq", 0, <<>>), V("seq", 0, <<a[1]>>), V("seq", 0, <<a[1], LastOf(a)>>)>>
    [] t.c \in {"HashSet", "BTreeSet"} -> <<V("seq", 0, <<>>), V("seq", 0, <<a[1]>>)>>      \* (one element: no iteration order)
    [] t.c = "Array2" -> <<V("seq", 0, <<a[1], LastOf(a)>>)>>
    [] t.c = "Array0" -> <<V("seq", 0, <<>>)>>
    [] t.c = "Tuple1" -> <<V("seq", 0, <<a[1]>>)>>
    [] t.c = "Tuple2" -> LET b == Vals(t.as[2]) IN <<V("seq", 0, <<a[1], b[1]>>), V("seq", 0, <<LastOf(a), LastOf(b)>>)>>
    [] t.c = "Tuple3" -> LET b == Vals(t.as[2]) c == Vals(t.as[3]) IN <<V("seq", 0, <<a[1], b[1], c[1]>>)>>
    [] t.c \in {"HashMap", "BTreeMap"} -> LET b == Vals(t.as[2]) IN <<V("map", 0, <<>>), V("map", 1, <<b[1]>>), V("map", Len(a), <<LastOf(b)>>)>>
    [] t.c = "Result" -> LET b == Vals(t.as[2]) IN <<V("ok", 0, <<a[1]>>), V("err", 0, <<b[1]>>)>>
    [] t.c \in {"Range", "RangeInclusive"} -> <<V("range", 0, <<a[1], LastOf(a)>>)>>

JObj(entries) == [k |-> "obj", v |-> entries]
JArr(vs) == [k |-> "arr", v |-> vs]
JNull == [k |-> "null"]

RECURSIVE Ser(_, _)
Ser(t, v) ==
  CASE v.f = "leaf" -> BCfg.leaf[t.c].vals[v.i]
    [] v.f = "wrap" -> Ser(t.as[1], v.vs[1])
    [] v.f = "some" -> Ser(t.as[1], v.vs[1])
    [] v.f \in {"none", "dead", "phantom"} -> JNull
    [] v.f = "seq" -> IF t.c \in {"Tuple2", "Tuple3"}
                      THEN JArr([i \in DOMAIN v.vs |-> Ser(t.as[i], v.vs[i])])
                      ELSE JArr([i \in DOMAIN v.vs |-> Ser(t.as[1], v.vs[i])])
    [] v.f = "map" -> IF v.vs = <<>> THEN JObj(<<>>)
                      ELSE LET key == BCfg.leaf[t.as[1].c].keys[v.i] IN JObj(<< <<key.s, Ser(t.as[2], v.vs[1]), key.num>> >>)
    [] v.f = "ok" -> JObj(<< <<"Ok", Ser(t.as[1], v.vs[1]), FALSE>> >>)
    [] v.f = "err" -> JObj(<< <<"Err", Ser(t.as[2], v.vs[1]), FALSE>> >>)
    [] v.f = "range" -> JObj(<< <<"start", Ser(t.as[1], v.vs[1]), FALSE>>, <<"end", Ser(t.as[1], v.vs[2]), FALSE>> >>)

C12_Model(t) == \A i \in DOMAIN Vals(t) : Inhabits(Ser(t, Vals(t)[i]), Name(t), BCfg.env)

(***************************************************************************)
(* The terms of the run: every composition up to BCfg.depth                *)
(***************************************************************************)
S(seq) == { seq[i] : i \in DOMAIN seq }
Leaves == { T(l, <<>>) : l \in S(BCfg.leaves) }
LeavesOf(names) == { T(l, <<>>) : l \in S(names) }
\* what a constructor can be applied to (Rust: Hash + Eq for sets, Copy for Cell, Clone for Cow; map keys: what
\* serde_json writes as an object key)
ArgsOf(c, terms) ==
  CASE c \in {"HashSet", "BTreeSet"} -> LeavesOf(BCfg.hashleaves)
    [] c = "Cell" -> LeavesOf(BCfg.copyleaves)
    [] c \in {"Cow", "Range", "RangeInclusive"} -> Leaves
    [] OTHER -> terms

\* BCfg.levels[d] = [unary, nary, maps]: the constructors applied at nesting level d (level 1 = directly around a leaf)
RECURSIVE Terms(_)
Terms(d) ==
  IF d = 0 THEN Leaves
  ELSE LET prev == Terms(d - 1)
           L == BCfg.levels[d] IN
       prev
       \cup UNION { { T(c, <<a>>) : a \in ArgsOf(c, prev) } : c \in S(L.unary) }
       \cup { T(m, <<k, v>>) : m \in S(L.maps), k \in LeavesOf(BCfg.keyleaves), v \in prev }
       \cup (IF "Result" \in S(L.nary) THEN { T("Result", <<a, b>>) : a \in prev, b \in LeavesOf(BCfg.second) } ELSE {})
       \cup (IF "Tuple2" \in S(L.nary) THEN { T("Tuple2", <<a, b>>) : a \in prev, b \in LeavesOf(BCfg.second) } ELSE {})
       \cup (IF "Tuple3" \in S(L.nary) THEN { T("Tuple3", <<a, b, b>>) : a \in LeavesOf(BCfg.second), b \in prev } ELSE {})
=============================================================================
