---------------------------- MODULE MC_Builtins ----------------------------
(***************************************************************************)
(* PREDICT for C12: every type term of the run (compositions of the        *)
(* supported library types up to the depth bound) with the TypeScript type *)
(* Name(t), the abstract values Vals(t), their JSON Ser(t, v), and the     *)
(* model verdict C12_Model(t) as an invariant.                             *)
(***************************************************************************)
EXTENDS Builtins, TLC
VARIABLE term
Init == term \in Terms(BCfg.depth)
Next == UNCHANGED term
Spec == Init /\ [][Next]_term
Model_C12 == C12_Model(term)
ValsOut == LET vs == Vals(term) IN [i \in DOMAIN vs |-> [v |-> vs[i], json |-> Ser(term, vs[i])]]
EmitPred == PrintT(<<"PRED", ToJson([term |-> term, ts |-> Name(term), values |-> ValsOut, model_ok |-> C12_Model(term)])>>)
=============================================================================
