---------------------------- MODULE Determinism ----------------------------
(***************************************************************************)
(* C13: bindings are a function of source and configuration.  A record is  *)
(* one OBSERVABLE (a public string function of one type, or the bytes of   *)
(* one exported file of one workload) with the values seen under every     *)
(* condition it was produced in:                                           *)
(*   [what, values |-> <<[cond, value]..>>]                                *)
(* where cond names the build (independent compilation = fresh macro       *)
(* process = fresh hash seeds), the run, the number of threads and the     *)
(* order of the roots.  The property: all values of a record are equal.    *)
(***************************************************************************)
EXTENDS Naturals, Sequences, TLC, Json, IOUtils
Rec == ndJsonDeserialize(IOEnv.VERIF_TRACE)
VARIABLE i
Init == i = 0
Next == i = 0 /\ i' \in DOMAIN Rec
Spec == Init /\ [][Next]_i
R == Rec[i]
Deterministic == \A a, b \in DOMAIN R.values : R.values[a].value = R.values[b].value
Judge == i = 0 \/ Deterministic \/ PrintT(<<"BAD", ToJson(i)>>)
=============================================================================
