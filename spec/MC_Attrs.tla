------------------------------ MODULE MC_Attrs ------------------------------
(***************************************************************************)
(* PREDICT for C16: items are grown one attribute at a time from palettes  *)
(* given by the configuration (Cfg.palette.<position>: sequences of        *)
(* attributes; an item takes a subset of each, in palette order, up to the *)
(* bounds Cfg.max.<position>).  Every finished item is emitted with the    *)
(* outcome the model of the code predicts and with what the property       *)
(* demands (Documented).  Model verdict: an item that must be diagnosed is *)
(* never accepted by the model of the code.                                *)
(***************************************************************************)
EXTENDS Attrs, Json, IOUtils

Cfg == JsonDeserialize(IOEnv.VERIF_CFG)
Shapes == {"named", "named0", "tuple", "tuple0", "newtype", "unit"}

VARIABLES it, stage, last
vars == <<it, stage, last>>
\* stage: "c" container attrs, "v" variant attrs, "f" field attrs, "done"; last: palette index of the last attribute added

\* Cfg.gens: generics of the item ("none", "type", "bounded", "where", "default", "const", "lifetime", "two");
\* Cfg.idents: the identifier of the first field.  Neither changes the predicted outcome; both must not
\* change the real one (no panic, accepted items compile).  Generic items need a field to use the parameter.
Init == /\ \E k \in SeqToSet(Cfg.kinds) : \E sh \in Shapes : \E g \in SeqToSet(Cfg.gens) : \E id \in SeqToSet(Cfg.idents) :
             /\ (g # "none" => sh \in {"named", "tuple"})
             /\ (id # "a" => sh = "named")
             /\ it = [kind |-> k, shape |-> IF k = "struct" THEN sh ELSE "unit", vshape |-> IF k = "enum" THEN sh ELSE "unit",
                      c |-> <<>>, v |-> <<>>, f |-> <<>>, fty |-> "i32", gen |-> g, ident |-> id]
        /\ stage = "c" /\ last = 0

Pal(st) == IF st = "c" THEN (IF it.kind = "struct" THEN Cfg.palette.struct ELSE Cfg.palette.enum)
           ELSE IF st = "v" THEN Cfg.palette.variant ELSE Cfg.palette.field
Max(st) == IF st = "c" THEN Cfg.max.c ELSE IF st = "v" THEN Cfg.max.v ELSE Cfg.max.f
Cur(st) == IF st = "c" THEN it.c ELSE IF st = "v" THEN it.v ELSE it.f

FieldShape == IF it.kind = "struct" THEN it.shape ELSE it.vshape
NextStage(st) == IF st = "c" THEN (IF it.kind = "enum" THEN "v" ELSE IF HasField(it.shape) THEN "f" ELSE "done")
                 ELSE IF st = "v" THEN (IF HasField(it.vshape) THEN "f" ELSE "done")
                 ELSE "done"

Add == /\ stage \in {"c", "v", "f"} /\ Len(Cur(stage)) < Max(stage)
       /\ \E k \in DOMAIN Pal(stage) :
            /\ k > last
            /\ it' = IF stage = "c" THEN [it EXCEPT !.c = Append(@, Pal(stage)[k])]
                     ELSE IF stage = "v" THEN [it EXCEPT !.v = Append(@, Pal(stage)[k])]
                     ELSE [it EXCEPT !.f = Append(@, Pal(stage)[k])]
            /\ last' = k
       /\ UNCHANGED stage
Advance == /\ stage \in {"c", "v", "f"} /\ stage' = NextStage(stage) /\ last' = 0 /\ UNCHANGED it
\* the field type only matters next to `optional`
Retype == /\ stage = "done" /\ it.fty = "i32" /\ \E a \in SeqToSet(it.f) : a.key = "optional"
          /\ \E t \in {"opt", "inner"} : it' = [it EXCEPT !.fty = t]
          /\ UNCHANGED <<stage, last>>
Next == Add \/ Advance \/ Retype
Spec == Init /\ [][Next]_vars

Model_C16 == stage = "done" => (Documented(it) => Outcome(it) \in {"Reject", "RejectAtTypeck"})
Emit == stage = "done" => PrintT(<<"CASE", ToJson([item |-> it, pred |-> Outcome(it), documented |-> Documented(it)])>>)
=============================================================================
