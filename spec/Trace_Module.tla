----------------------------- MODULE Trace_Module -----------------------------
(***************************************************************************)
(* ADJUDICATE for C04 and C15: a record is the text of one exported file   *)
(* (or of one export_to_string()) as a sequence of classified characters,  *)
(* with what it is supposed to hold.  The text is lexed by the automaton   *)
(* of Lexical.tla and recognised by the grammar of TsGrammar.tla.          *)
(*                                                                         *)
(* C04  lexes; parses as a module (imports, then exports); begins with the *)
(*      generated-file notice (a line comment equal to the reference       *)
(*      notice); declares exactly the expected names, each once; ends with *)
(*      a newline.                                                         *)
(* C15  (records with `base`): the tokens without comments equal those of  *)
(*      the undocumented sibling; the comments are exactly the documented  *)
(*      positions; each sits immediately before what it documents and      *)
(*      contains the documentation text.                                   *)
(***************************************************************************)
EXTENDS TsGrammar, FiniteSets, Json, IOUtils
Rec == ndJsonDeserialize(IOEnv.VERIF_TRACE)
VARIABLE i
Init == i = 0
Next == i = 0 /\ i' \in DOMAIN Rec
Spec == Init /\ [][Next]_i
R == Rec[i]

Toks == Lex(R.chars)
Chars(cs) == [k \in DOMAIN cs |-> cs[k].c]

\* ---- C04
NoticeOK == Toks # <<>> /\ Toks[1].t = "cmt" /\ Toks[1].v = Chars(R.notice)
CountOf(seq, x) == Cardinality({ k \in DOMAIN seq : seq[k] = x })
NamesOK == LET d == Declared(Toks) IN
           /\ Len(d) = Len(R.names)
           /\ \A k \in DOMAIN R.names : CountOf(d, R.names[k]) = 1
EndsNL == R.chars # <<>> /\ R.chars[Len(R.chars)].k = "nl"
C04_Tags ==
  (IF LexOK(Toks) THEN <<>> ELSE <<"lex">>)
  \o (IF LexOK(Toks) /\ ~ParsesAsModule(Toks) THEN <<"parse">> ELSE <<>>)
  \o (IF LexOK(Toks) /\ ~NoticeOK THEN <<"notice">> ELSE <<>>)
  \o (IF LexOK(Toks) /\ ParsesAsModule(Toks) /\ ~NamesOK THEN <<"names">> ELSE <<>>)
  \o (IF EndsNL THEN <<>> ELSE <<"newline">>)

\* ---- C15
BaseToks == Lex(R.base)
Comments(ts) == SelectSeq(ts, LAMBDA t : t.t = "cmt")
OccursIn(hay, needle) == \E p \in 1..(Len(hay) - Len(needle) + 1) : SubSeq(hay, p, p + Len(needle) - 1) = needle
NoBackslash(cs) == SelectSeq(cs, LAMBDA c : c # "\\")
\* position (in the full token stream) of the thing a doc record documents
TargetPos(d) ==
  IF d.pos = "container"
  THEN { p \in DOMAIN Toks : IsWord(Toks, p, kwExport) /\ IsWord(Toks, p + 1, kwType) /\ IsId(Toks, p + 2) /\ Toks[p + 2].v = d.key }
  ELSE { p \in DOMAIN Toks : Toks[p].t \in {"id", "str"} /\ Toks[p].v = d.key /\ (IsP(Toks, p + 1, ":") \/ IsP(Toks, p + 1, "?")) }
DocOK(d) == \E p \in TargetPos(d) :
              /\ p > 1 /\ Toks[p - 1].t = "cmt"
              /\ \A l \in DOMAIN d.lines : OccursIn(NoBackslash(Toks[p - 1].v), d.lines[l])   \* (text given without backslashes)
C15_Tags ==
  IF ~LexOK(Toks) THEN <<"lex">>
  ELSE (IF NoComments(Toks) = NoComments(BaseToks) THEN <<>> ELSE <<"type_changed">>)
       \o (IF Len(Comments(Toks)) = Len(R.docs) + 1 THEN <<>> ELSE <<"comment_count">>)     \* + the notice
       \o (IF \A d \in DOMAIN R.docs : DocOK(R.docs[d]) THEN <<>> ELSE <<"placement_or_text">>)

Judge == i = 0 \/
  LET tags == IF R.kind = "c04" THEN C04_Tags ELSE C15_Tags IN
  tags = <<>> \/ PrintT(<<"BAD", ToJson([rec |-> i, tags |-> tags])>>)
=============================================================================
