--------------------------- MODULE Trace_RepoTests ---------------------------
(***************************************************************************)
(* Trace validation of the exporter against the REPOSITORY'S OWN test      *)
(* suite: `cargo test -p ts-rs --test integration` (454 tests exporting    *)
(* their types from the threads of one process) is run with the hook       *)
(* points switched on; every hook point appends one event                  *)
(*     [seq, thread, ev, path, ident]                                      *)
(* to a file while the registry lock is held (Lock_wait: before it is      *)
(* taken).  The events are consumed one per step by the registry-level     *)
(* abstraction of Export.tla's step relation: no universe of types is      *)
(* needed, the registry is a set of <<path, ident>> pairs.                 *)
(*                                                                         *)
(* The trace is accepted iff every event is enabled in its turn            *)
(* (POSTCONDITION: all of it was consumed): critical sections never        *)
(* overlap; a section does one of  skip (the type is registered for the    *)
(* file) / create (the file has no entry) / read-merge-write (the file has *)
(* an entry without this type), in that order, and registers the type last;*)
(* and at the end every registered type is declared in its file            *)
(* (Final[path] = names declared by the file the run left on disk).        *)
(***************************************************************************)
EXTENDS Naturals, Sequences, FiniteSets, TLC, Json, IOUtils

Ev    == ndJsonDeserialize(IOEnv.VERIF_TRACE)
Final == JsonDeserialize(IOEnv.VERIF_FINAL)       \* path -> sequence of declared names

VARIABLES l, holder, sect, pend, reg
vars == <<l, holder, sect, pend, reg>>
\* l: index of the next event; holder: the thread inside the critical section ("none");
\* sect: <<path, ident>> of that section; pend: how far it got; reg: the registry

Init == l = 1 /\ holder = "none" /\ sect = <<"", "">> /\ pend = "out" /\ reg = {}

E == Ev[l]
Is(name) == l <= Len(Ev) /\ E.ev = name /\ l' = l + 1
Inside == holder = E.thread /\ sect = <<E.path, E.ident>>
PathsOf(r) == { x[1] : x \in r }

LockWait == Is("Lock_wait") /\ E.thread # holder /\ UNCHANGED <<holder, sect, pend, reg>>
Lock     == Is("Lock") /\ holder = "none" /\ holder' = E.thread /\ sect' = <<E.path, E.ident>> /\ pend' = "entered" /\ UNCHANGED reg
Skip     == Is("Skip_present") /\ Inside /\ pend = "entered" /\ sect \in reg /\ pend' = "skipped" /\ UNCHANGED <<holder, sect, reg>>
Create   == Is("Create_write") /\ Inside /\ pend = "entered" /\ E.path \notin PathsOf(reg) /\ pend' = "created" /\ UNCHANGED <<holder, sect, reg>>
RegNew   == Is("Reg_insert_new") /\ Inside /\ pend = "created" /\ reg' = reg \cup {sect} /\ pend' = "registered" /\ UNCHANGED <<holder, sect>>
OpenRead == Is("Open_read") /\ Inside /\ pend = "entered" /\ E.path \in PathsOf(reg) /\ sect \notin reg /\ pend' = "read" /\ UNCHANGED <<holder, sect, reg>>
MergeWr  == Is("Merge_seek_write") /\ Inside /\ pend = "read" /\ pend' = "written" /\ UNCHANGED <<holder, sect, reg>>
RegIns   == Is("Reg_insert") /\ Inside /\ pend = "written" /\ reg' = reg \cup {sect} /\ pend' = "registered" /\ UNCHANGED <<holder, sect>>
\* a section ends after a skip or after the type is registered; with AllowEarlyEnd also right after it was entered
\* (an I/O error is a value) - but never with the file written and the type not registered
CONSTANT AllowEarlyEnd
Unlock   == Is("Unlock") /\ Inside /\ pend \in ({"skipped", "registered"} \cup (IF AllowEarlyEnd THEN {"entered"} ELSE {}))
            /\ holder' = "none" /\ pend' = "out" /\ UNCHANGED <<sect, reg>>

Next == LockWait \/ Lock \/ Skip \/ Create \/ RegNew \/ OpenRead \/ MergeWr \/ RegIns \/ Unlock
Spec == Init /\ [][Next]_vars

\* every registered type is declared in the file the run left behind (checked in the last state)
Declared(p) == IF p \in DOMAIN Final THEN { Final[p][k] : k \in DOMAIN Final[p] } ELSE {}
FinalOK == l = Len(Ev) + 1 => \A r \in reg : r[2] \in Declared(r[1])

Accepted == IF TLCGet("stats").diameter - 1 = Len(Ev) THEN TRUE
            ELSE PrintT(<<"REJECTED", ToJson([consumed |-> TLCGet("stats").diameter - 1, events |-> Len(Ev)])>>) /\ FALSE
Report == PrintT(<<"STAT", ToJson([events |-> Len(Ev)])>>)
=============================================================================
