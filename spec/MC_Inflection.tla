---------------------------- MODULE MC_Inflection ----------------------------
(***************************************************************************)
(* PREDICT for C09 (and the case-conversion part of C16): every legal Rust *)
(* identifier over the class alphabet up to MaxLen, all eight rules, both  *)
(* positions.  Identifiers grow one character per step.                    *)
(***************************************************************************)
EXTENDS Inflection, Json

CONSTANT MaxLen
Alphabet == {"a", "A", "1", "_", "e", "E", "s"}

VARIABLE id
Init == id = <<>>
Next == /\ Len(id) < MaxLen
        /\ \E c \in Alphabet : (id = <<>> => c # "1") /\ id' = Append(id, c)
Spec == Init /\ [][Next]_id

\* `_` alone is not an identifier
Legal == id # <<>> /\ id # <<"_">>

RuleSeq == <<"lowercase", "UPPERCASE", "camelCase", "snake_case", "PascalCase", "SCREAMING_SNAKE_CASE",
             "kebab-case", "SCREAMING-KEBAB-CASE">>

Model_C09 == Legal => \A r \in Rules : \A pos \in {"field", "variant"} : C09_Holds(Ts(pos, r, id), Serde(pos, r, id))
Model_C16 == Legal => \A r \in Rules : \A pos \in {"field", "variant"} : C16_Holds(Ts(pos, r, id))

Emit == Legal => PrintT(<<"CASE", ToJson([id |-> id,
          field   |-> [k \in DOMAIN RuleSeq |-> [ts |-> TsField(RuleSeq[k], id), serde |-> SerdeField(RuleSeq[k], id)]],
          variant |-> [k \in DOMAIN RuleSeq |-> [ts |-> TsVariant(RuleSeq[k], id), serde |-> SerdeVariant(RuleSeq[k], id)]]])>>)
=============================================================================
