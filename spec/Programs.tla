------------------------------ MODULE Programs ------------------------------
(***************************************************************************)
(* The generator of type definitions ("programs") for the compiler half of *)
(* ts-rs (properties C01, C02, C03, C04, C07, C14, C15): a program is      *)
(* grown by construction steps                                             *)
(*     Start(kind, representation, container attributes)                   *)
(*     AddVariant(shape, variant attributes)        (enums)                *)
(*     AddField(type, field attributes)             (to the struct / to    *)
(*                                                   the last variant)     *)
(*     Finish                                                              *)
(* over alphabets given by the slice configuration (Cfg), so that TLC      *)
(* enumerates EVERY program of the slice; WellFormed restricts to programs *)
(* that serde_derive and ts-rs accept at compile time (the domain of the   *)
(* wire-format properties) - it transcribes the compile-time rejections.   *)
(*                                                                         *)
(* program == [kind, repr, cattrs, shape, fields, variants, garg]          *)
(*   garg    "" or the argument token a generic program `P<T>` is          *)
(*           instantiated at; its fields may then use the parameter tokens *)
(*           of that argument (Cfg.gen[..].toks, e.g. "opt_T@i32")         *)
(*   kind    "struct" | "enum"                                             *)
(*   repr    "ext" | "int" | "adj" | "unt"        (enums)                  *)
(*   cattrs  sequence of attribute tokens                                  *)
(*   shape   "named" | "tuple" | "newtype" | "unit" | "named0" | "tuple0"  *)
(*   fields  sequence of [ty, attrs]                                       *)
(*   variants sequence of [shape, attrs, fields]                           *)
(* Attribute and type tokens are strings; their Rust spelling, their       *)
(* values and their serde behaviour live in the renderer (lib/corpus.py).  *)
(***************************************************************************)
EXTENDS Naturals, Sequences, FiniteSets, SequencesExt, TLC, Json, IOUtils

Cfg == JsonDeserialize(IOEnv.VERIF_CFG)
\* Cfg.kinds, Cfg.reprs, Cfg.cattrsets, Cfg.shapes, Cfg.vshapes, Cfg.vattrsets, Cfg.tys, Cfg.fattrsets : sequences
\* (Cfg.tys2 / Cfg.fattrsets2: alphabets of the second field, kept small so the slice stays exhaustive in the first)
\* Cfg.maxvariants, Cfg.objlike (type tokens that are object types), Cfg.options (type tokens that are Option<_>),
\* Cfg.defaultable (type tokens implementing Default)

S(seq) == { seq[i] : i \in DOMAIN seq }
Has(attrs, a) == \E i \in DOMAIN attrs : attrs[i] = a

Arity(shape) == CASE shape \in {"unit", "named0", "tuple0"} -> 0
                  [] shape \in {"newtype", "struct1"} -> 1
                  [] shape \in {"tuple", "named", "struct2"} -> 2
IsNamed(shape) == shape \in {"named", "named0", "struct1", "struct2"}

VARIABLES prog, stage
vars == <<prog, stage>>

Empty == [kind |-> "", repr |-> "", cattrs |-> <<>>, shape |-> "", fields |-> <<>>, variants |-> <<>>, garg |-> ""]
\* Cfg.gen: sequence of [arg, toks]: the generic instantiations of the slice (empty: no generic programs)
GenChoices == {[arg |-> "", toks |-> <<>>]} \cup S(Cfg.gen)
GenOf(g) == IF g = "" THEN <<>> ELSE (CHOOSE x \in S(Cfg.gen) : x.arg = g).toks
\* the type alphabet of the next field: the slice's tokens plus the parameter tokens of the program's argument
Tys1(p) == S(Cfg.tys) \cup S(GenOf(p.garg))
Tys2(p) == S(Cfg.tys2)                     \* (the parameter is used by the first field; the second stays in the small alphabet)
IsParamTok(p, ty) == ty \in S(GenOf(p.garg))
Init == prog = Empty /\ stage = "start"

Start == /\ stage = "start"
         /\ \E k \in S(Cfg.kinds), ca \in S(Cfg.cattrsets), g \in GenChoices :
              IF k = "struct"
              THEN \E sh \in S(Cfg.shapes) :
                     /\ prog' = [Empty EXCEPT !.kind = k, !.cattrs = ca, !.shape = sh, !.garg = g.arg]
                     /\ stage' = IF Arity(sh) = 0 THEN "done" ELSE "fields"
              ELSE \E r \in S(Cfg.reprs) :
                     /\ prog' = [Empty EXCEPT !.kind = k, !.cattrs = ca, !.repr = r, !.garg = g.arg]
                     /\ stage' = "variants"

AddFieldStruct == /\ stage = "fields" /\ prog.kind = "struct"
                  /\ \E ty \in (IF prog.fields = <<>> THEN Tys1(prog) ELSE Tys2(prog)),
                        fa \in S(IF prog.fields = <<>> THEN Cfg.fattrsets ELSE Cfg.fattrsets2) :
                       prog' = [prog EXCEPT !.fields = Append(@, [ty |-> ty, attrs |-> fa])]
                  /\ stage' = IF Len(prog.fields) + 1 = Arity(prog.shape) THEN "done" ELSE "fields"

AddVariant == /\ stage = "variants" /\ Len(prog.variants) < Cfg.maxvariants
              /\ \E sh \in S(Cfg.vshapes), va \in S(Cfg.vattrsets) :
                   /\ prog' = [prog EXCEPT !.variants = Append(@, [shape |-> sh, attrs |-> va, fields |-> <<>>])]
                   /\ stage' = IF Arity(sh) = 0 THEN "variants" ELSE "vfields"

AddFieldVariant == /\ stage = "vfields"
                   /\ LET n == Len(prog.variants) v == prog.variants[n] IN
                      /\ \E ty \in (IF v.fields = <<>> THEN Tys1(prog) ELSE Tys2(prog)),
                            fa \in S(IF v.fields = <<>> THEN Cfg.fattrsets ELSE Cfg.fattrsets2) :
                           prog' = [prog EXCEPT !.variants[n].fields = Append(@, [ty |-> ty, attrs |-> fa])]
                      /\ stage' = IF Len(v.fields) + 1 = Arity(v.shape) THEN "variants" ELSE "vfields"

Finish == /\ stage = "variants" /\ Len(prog.variants) >= 1 /\ stage' = "done" /\ UNCHANGED prog

Next == Start \/ AddFieldStruct \/ AddVariant \/ AddFieldVariant \/ Finish
Spec == Init /\ [][Next]_vars

(***************************************************************************)
(* Compile-time domain: what serde_derive / ts-rs / rustc reject.          *)
(***************************************************************************)
FieldOK(f, named, container_named) ==
  /\ Has(f.attrs, "flatten") => (named /\ f.ty \in S(Cfg.objlike))                     \* flatten: named fields of object-like type
  /\ (Has(f.attrs, "optional") \/ Has(f.attrs, "optional_nullable") \/ Has(f.attrs, "optional_ssi")) =>
        (named /\ f.ty \in S(Cfg.options))                                             \* #[ts(optional)]: named Option fields
  /\ (Has(f.attrs, "skip") \/ Has(f.attrs, "default")) => f.ty \in S(Cfg.defaultable)    \* serde(skip / default) need Default to deserialize
  /\ (Has(f.attrs, "rename") \/ Has(f.attrs, "rename_q")) => named
  /\ ~(Has(f.attrs, "flatten") /\ (Has(f.attrs, "inline") \/ Has(f.attrs, "rename") \/ Has(f.attrs, "skip")))
  /\ ~(Has(f.attrs, "inline") /\ Has(f.attrs, "skip"))

FieldsOK(fields, named) == \A i \in DOMAIN fields : FieldOK(fields[i], named, named)

VariantOK(v, repr) ==
  /\ FieldsOK(v.fields, IsNamed(v.shape))
  /\ repr = "int" => v.shape \notin {"tuple", "tuple0"}                                   \* serde: no tuple variants in internally tagged enums
  /\ (Has(v.attrs, "rename_all") \/ Has(v.attrs, "rename_all_kebab")) => IsNamed(v.shape)  \* ts-rs: rename_all only on struct variants
  \* serde: #[serde(untagged)] variants must come last - checked on the whole enum below

UntaggedLast(vs) == \A i, j \in DOMAIN vs : (i < j /\ Has(vs[i].attrs, "untagged")) => Has(vs[j].attrs, "untagged")

AllFields == IF prog.kind = "struct" THEN prog.fields
             ELSE LET RECURSIVE Cat(_)
                      Cat(i) == IF i > Len(prog.variants) THEN <<>> ELSE prog.variants[i].fields \o Cat(i + 1)
                  IN Cat(1)
\* rustc: a type parameter has to be used
GenericOK == prog.garg = "" \/ \E i \in DOMAIN AllFields : IsParamTok(prog, AllFields[i].ty)

WellFormedBody ==
  IF prog.kind = "struct"
  THEN /\ FieldsOK(prog.fields, IsNamed(prog.shape))
       /\ (Has(prog.cattrs, "tag") \/ Has(prog.cattrs, "rename_all") \/ Has(prog.cattrs, "optional_fields")) => IsNamed(prog.shape)
       /\ (prog.shape = "named0" /\ Has(prog.cattrs, "rename_all")) => Has(prog.cattrs, "tag")   \* ts-rs: rename_all on an empty struct
       /\ ~Has(prog.cattrs, "rename_all_fields")
  ELSE /\ \A i \in DOMAIN prog.variants : VariantOK(prog.variants[i], prog.repr)
       /\ UntaggedLast(prog.variants)
       /\ ~Has(prog.cattrs, "tag") /\ ~Has(prog.cattrs, "optional_fields")                        \* the representation is `repr`
       /\ (Has(prog.cattrs, "rename_all_fields") =>
             \A i \in DOMAIN prog.variants : prog.variants[i].shape # "named0")                   \* ts-rs: rename_all on an empty struct
       /\ (prog.repr = "unt" => \A i \in DOMAIN prog.variants : ~Has(prog.variants[i].attrs, "untagged"))

WellFormed ==
  /\ GenericOK
  /\ WellFormedBody

Emit == (stage = "done" /\ WellFormed) => PrintT(<<"CASE", ToJson(prog)>>)
=============================================================================
