---------------------------- MODULE Trace_Generic ----------------------------
(***************************************************************************)
(* ADJUDICATE for C07.  A record is one generic definition observed at     *)
(* several instantiations:                                                 *)
(*   params    what the property demands of the parameter list:            *)
(*             <<[name, default (a type, or [k |-> "none"])]>>              *)
(*   insts     <<[decl (name, params, body), nameAst, args (types)]>>,     *)
(*             parsed from the real decl() / name() of each instantiation  *)
(*   known     names that may occur free in a body (declared types)        *)
(* Judged: the declaration is the same for every choice of arguments, is   *)
(* generic over exactly the demanded parameters (order, defaults), binds   *)
(* every name it uses, and name() is the identifier applied to the names   *)
(* of the arguments.                                                       *)
(***************************************************************************)
EXTENDS TsTypes, Json, IOUtils
Rec == ndJsonDeserialize(IOEnv.VERIF_TRACE)
VARIABLE i
Init == i = 0
Next == i = 0 /\ i' \in DOMAIN Rec
Spec == Init /\ [][Next]_i
R == Rec[i]

Parametric == \A a, b \in DOMAIN R.insts : R.insts[a].decl = R.insts[b].decl
ParamsOK == \A a \in DOMAIN R.insts :
              LET ps == R.insts[a].decl.params IN
              /\ Len(ps) = Len(R.params)
              /\ \A k \in DOMAIN ps : ps[k].name = R.params[k].name /\ ps[k].default = R.params[k].default
Bound(d) == { d.params[k].name : k \in DOMAIN d.params }
Scoped == \A a \in DOMAIN R.insts :
            LET d == R.insts[a].decl IN
            FreeNames(d.body, Bound(d)) \subseteq ({ R.known[k] : k \in DOMAIN R.known } \cup {d.name})
NameOK == \A a \in DOMAIN R.insts :
            LET x == R.insts[a] IN
            x.nameAst = (IF x.args = <<>> THEN [k |-> "ref", n |-> x.decl.name, as |-> <<>>]
                         ELSE [k |-> "ref", n |-> x.decl.name, as |-> x.args])

Judge == i = 0 \/
  /\ (Parametric \/ PrintT(<<"BADPARAMETRIC", ToJson(i)>>))
  /\ (ParamsOK \/ PrintT(<<"BADPARAMS", ToJson(i)>>))
  /\ (Scoped \/ PrintT(<<"BADSCOPE", ToJson(i)>>))
  /\ (NameOK \/ PrintT(<<"BADNAME", ToJson(i)>>))
=============================================================================
