---------------------------- MODULE Trace_Reach ----------------------------
(***************************************************************************)
(* ADJUDICATE for the graph half of C11: a record is one real              *)
(* export_all_to(dir) of a root type of a generated module, observed as    *)
(* the difference of the directory tree:                                   *)
(*   edge       kind of the root (key of Cfg.edges: what it names / goes   *)
(*              through, read off the source as documented)                *)
(*   d_et, r_et export_to of the dependency D and of the root R            *)
(*   dir        [abs, cs] the directory given to export_all_to             *)
(*   changed    paths (below the working directory) created or modified    *)
(*   removed    paths that existed before and are gone                     *)
(*   reported   output paths (relative to dir) in the root's dependencies()*)
(*   ok         the call returned Ok                                       *)
(* Cfg.types[t] = [named, through, chars, et] for the helper items.        *)
(***************************************************************************)
EXTENDS Reach, Json, IOUtils
Cfg == JsonDeserialize(IOEnv.VERIF_CFG)
Rec == ndJsonDeserialize(IOEnv.VERIF_TRACE)
VARIABLE i
Init == i = 0
Next == i = 0 /\ i' \in DOMAIN Rec
Spec == Init /\ [][Next]_i
R == Rec[i]
S(seq) == { seq[k] : k \in DOMAIN seq }

Cwd == P(TRUE, << <<"c", "w", "d">> >>)
Types == DOMAIN Cfg.types \cup {"R"}
Named   == [t \in Types |-> IF t = "R" THEN S(Cfg.edges[R.edge].named)   ELSE S(Cfg.types[t].named)]
Through == [t \in Types |-> IF t = "R" THEN S(Cfg.edges[R.edge].through) ELSE S(Cfg.types[t].through)]
Et(t)    == IF t = "R" THEN R.r_et ELSE IF t = "D" THEN R.d_et ELSE Cfg.types[t].et
Chars(t) == IF t = "R" THEN <<"R", "@">> ELSE IF t = "D" THEN R.d_chars ELSE Cfg.types[t].chars     \* (D may be renamed)

Must == Reachable("R", Named, Through)
Predicted == { Location(Cwd, R.dir, Chars(t), Et(t)) : t \in Must }
Observed  == { Cwd.cs \o p : p \in S(R.changed) }
Reported  == { Normal(Cwd, Join(R.dir, P(FALSE, p))) : p \in S(R.reported) }

Tags ==
  (IF ~R.ok THEN {"C11g_export_failed"} ELSE {})
  \cup (IF Predicted \ Observed # {} THEN {"C11g_missing_file"} ELSE {})
  \cup (IF Observed \ Predicted # {} THEN {"C11g_touched_other"} ELSE {})
  \cup (IF R.removed # <<>> THEN {"C11g_removed"} ELSE {})
  \cup (IF Reported \ Observed # {} THEN {"C11g_reported_path_not_written"} ELSE {})

Judge == i = 0 \/ Tags = {} \/
  PrintT(<<"BAD", ToJson([rec |-> i, tags |-> Tags, missing |-> Predicted \ Observed, extra |-> Observed \ Predicted])>>)
=============================================================================
