------------------------------- MODULE Export -------------------------------
(***************************************************************************)
(* The exporter of ts-rs as a state machine: TS::export / export_all /     *)
(* export_all_to -> recursive_export -> export_into -> export_to ->        *)
(* export_and_merge (ts-rs/src/lib.rs, ts-rs/src/export.rs).               *)
(*                                                                         *)
(* One step of a thread = one code step; the names of the program counter  *)
(* values are the names of the hook points in export_and_merge.            *)
(* The whole state is one record S so that the same step function serves   *)
(*  - the interleaving specification (Next: any enabled thread steps),     *)
(*  - the deterministic big step RunCall used to predict and to adjudicate *)
(*    sequential histories.                                                *)
(*                                                                         *)
(* Everything about the universe of types is MEASURED from the real types  *)
(* by `rt universe` and read from JSON: identifier, relative output path,  *)
(* the sequence of visit::<X>() calls of visit_dependencies, the rendered  *)
(* text cut into header and blocks (see Merge.tla).                        *)
(***************************************************************************)
EXTENDS Paths, Merge, Json, IOUtils

U == JsonDeserialize(IOEnv.VERIF_UNIVERSE)

\* U.types is a record whose field names are the type names (TLC does not cache definitions that
\* depend on IOEnv, so look-ups must be cheap by themselves)
TypeNames == DOMAIN U.types
T(n)      == U.types[n]
Cwd       == P(TRUE, U.cwd)

NoFile == [imports |-> <<>>, blocks |-> <<>>]

\* ------------------------------------------------------------------ the state record
\* reg    : set of <<path, ident>>      EXPORT_PATHS (a path has an entry iff some pair has it)
\* files  : path -> [imports, blocks]   regular files (path = sequence of components below the root)
\* dirs   : set of paths                directories
\* lock   : 0 or the thread holding the registry mutex;  poisoned : a panic happened while it was held
\* thr    : thread -> frame
Idle == [pc |-> "idle", entry |-> "", dir |-> P(FALSE, <<>>), root |-> "", cur |-> "", key |-> <<>>,
         stack |-> <<>>, seen |-> {}, ret |-> "none", err |-> "none", buf |-> NoFile]

InitState(threads) ==
  [reg |-> {}, files |-> <<>>, dirs |-> {}, lock |-> 0, poisoned |-> FALSE,
   thr |-> [t \in threads |-> Idle]]

DirPrefixes(p) == { SubSeq(p, 1, n) : n \in 1..Len(p) }
HasFile(S, p) == p \in DOMAIN S.files
WithFile(S, p, c) == [x \in DOMAIN S.files \cup {p} |-> IF x = p THEN c ELSE S.files[x]]
WithoutFile(S, p) == [x \in DOMAIN S.files \ {p} |-> S.files[x]]

Upd(S, t, f) == [S EXCEPT !.thr[t] = f]

Fail(S, t, e) == LET f == S.thr[t] IN
  [S EXCEPT !.thr[t] = [f EXCEPT !.pc = "Return", !.ret = e, !.stack = <<>>],
            !.lock = IF S.lock = t THEN 0 ELSE S.lock]

\* A call: [entry |-> "export" | "export_all" | "export_all_to", ty |-> type name, dir |-> P(..)]
\* `dir` is the argument of export_all_to, or what default_out_dir() returns at the time of the call.
StartCall(S, t, c) ==
  Upd(S, t, [Idle EXCEPT !.pc = "Enter", !.entry = c.entry, !.dir = c.dir, !.root = c.ty, !.cur = c.ty])

DropAt(s, i) == SubSeq(s, 1, i - 1) \o SubSeq(s, i + 1, Len(s))

\* the choices a thread has in its current step (only "Next" has more than one: which dependency first)
ThreadChoices(S, t) == LET f == S.thr[t] IN
  IF f.pc = "Next" /\ f.stack # <<>> /\ f.stack[Len(f.stack)].pend # <<>>
  THEN 1..Len(f.stack[Len(f.stack)].pend) ELSE {1}

Enabled(S, t) == LET f == S.thr[t] IN
  /\ f.pc \notin {"idle"}
  /\ (f.pc = "LockWait" => (S.lock = 0 \/ S.poisoned))

(***************************************************************************)
(* One step of thread t.  k resolves the only nondeterminism (visit order).*)
(***************************************************************************)
Step(S, t, k) == LET f == S.thr[t] IN
  CASE f.pc = "Enter" ->                                   \* export_recursive: seen.insert(TypeId)
         IF f.entry # "export" /\ f.cur \in f.seen
         THEN Upd(S, t, [f EXCEPT !.pc = "Next"])
         ELSE Upd(S, t, [f EXCEPT !.pc = "IntoPath", !.seen = @ \cup {f.cur}])
    [] f.pc = "IntoPath" ->                                \* export_into: output_path()?, join, path::absolute
         IF ~T(f.cur).exportable THEN Fail(S, t, "Err:CannotBeExported")
         ELSE LET a == Absolute(Cwd, Join(f.dir, P(FALSE, T(f.cur).out))) IN
              IF IsErrP(a) \/ ~a.abs THEN Fail(S, t, "Err:CannotBeExported")
              ELSE Upd(S, t, [f EXCEPT !.pc = "Render", !.key = a.cs])
    [] f.pc = "Render" ->                                  \* export_to_string (imports may fail for a dependency above the root)
         IF ~T(f.cur).renderOk THEN Fail(S, t, "Err:CannotBeExported")
         ELSE Upd(S, t, [f EXCEPT !.pc = "Mkdirs"])
    [] f.pc = "Mkdirs" ->                                  \* create_dir_all(parent)
         LET parents == DirPrefixes(Front(f.key)) IN
         IF \E p \in parents : HasFile(S, p) THEN Fail(S, t, "Err:Io")
         ELSE [Upd(S, t, [f EXCEPT !.pc = "LockWait"]) EXCEPT !.dirs = @ \cup parents]
    [] f.pc = "LockWait" ->                                \* get_export_paths().lock().unwrap()
         IF S.poisoned THEN Fail(S, t, "Panic")
         ELSE [Upd(S, t, [f EXCEPT !.pc = "Lookup"]) EXCEPT !.lock = t]
    [] f.pc = "Lookup" ->                                  \* lock.get_mut(&path) / entry.contains(&type_name)
         IF ~\E r \in S.reg : r[1] = f.key THEN Upd(S, t, [f EXCEPT !.pc = "Create_write"])
         ELSE IF <<f.key, T(f.cur).ident>> \in S.reg THEN Upd(S, t, [f EXCEPT !.pc = "Unlock"])   \* Skip_present
         ELSE Upd(S, t, [f EXCEPT !.pc = "Open_read"])
    [] f.pc = "Create_write" ->                            \* File::create (truncates), write_all, sync_all
         IF f.key \in S.dirs THEN Fail(S, t, "Err:Io")
         ELSE [Upd(S, t, [f EXCEPT !.pc = "Reg_insert_new"]) EXCEPT !.files = WithFile(S, f.key, T(f.cur).rendered)]
    [] f.pc = "Reg_insert_new" ->
         [Upd(S, t, [f EXCEPT !.pc = "Unlock"]) EXCEPT !.reg = @ \cup {<<f.key, T(f.cur).ident>>}]
    [] f.pc = "Open_read" ->                               \* OpenOptions::open, read_to_string, merge()
         IF ~HasFile(S, f.key) THEN Fail(S, t, "Err:Io")
         ELSE IF MergePanics(S.files[f.key], T(f.cur).rendered)
              THEN [Fail(S, t, "Panic") EXCEPT !.poisoned = TRUE]
         ELSE Upd(S, t, [f EXCEPT !.pc = "Merge_seek_write", !.buf = Merge(S.files[f.key], T(f.cur).rendered)])
    [] f.pc = "Merge_seek_write" ->                        \* seek(NOTE.len()), write_all, sync_all
         [Upd(S, t, [f EXCEPT !.pc = "Reg_insert", !.buf = NoFile]) EXCEPT !.files = WithFile(S, f.key, f.buf)]
    [] f.pc = "Reg_insert" ->
         [Upd(S, t, [f EXCEPT !.pc = "Unlock"]) EXCEPT !.reg = @ \cup {<<f.key, T(f.cur).ident>>}]
    [] f.pc = "Unlock" ->                                  \* guard dropped; then visit_dependencies (unless plain export)
         IF f.entry = "export"
         THEN [Upd(S, t, [f EXCEPT !.pc = "Return", !.ret = "Ok"]) EXCEPT !.lock = 0]
         ELSE [Upd(S, t, [f EXCEPT !.pc = "Next",
                                   !.stack = Append(@, [ty |-> f.cur, pend |-> T(f.cur).visits])]) EXCEPT !.lock = 0]
    [] f.pc = "Next" ->                                    \* the generated visit_dependencies / Visit::visit
         IF f.stack = <<>> THEN Upd(S, t, [f EXCEPT !.pc = "Return", !.ret = "Ok"])
         ELSE LET top == f.stack[Len(f.stack)] IN
              IF top.pend = <<>> THEN Upd(S, t, [f EXCEPT !.stack = Front(@)])
              ELSE LET d == top.pend[k] IN
                   Upd(S, t, [f EXCEPT !.stack[Len(f.stack)].pend = DropAt(top.pend, k),
                                       !.cur = d, !.pc = "Enter"])
    [] f.pc = "Return" -> Upd(S, t, [Idle EXCEPT !.ret = f.ret])
    [] OTHER -> S

\* ------------------------------------------------------------------ big step (sequential histories)
RECURSIVE RunThread(_, _)
RunThread(S, t) == IF S.thr[t].pc = "idle" THEN S ELSE RunThread(Step(S, t, 1), t)

RunCall(S, t, c) == RunThread(StartCall(S, t, c), t)

\* ------------------------------------------------------------------ environment steps (obstacles)
PutDir(S, p)  == [S EXCEPT !.dirs = @ \cup DirPrefixes(p)]
PutFile(S, p, c) == [S EXCEPT !.dirs = @ \cup DirPrefixes(Front(p)), !.files = WithFile(S, p, c)]
\* an existing file is moved aside and a directory takes its place / the reverse (environment steps
\* that obstruct a file which already holds exported declarations, without destroying them)
Aside(p) == U.cwd \o << <<"a", "s", "i", "d", "e">>, Last(p) >>
SwapOut(S, p) == IF ~HasFile(S, p) THEN S ELSE
  [S EXCEPT !.files = [x \in (DOMAIN S.files \ {p}) \cup {Aside(p)} |-> IF x = Aside(p) THEN S.files[p] ELSE S.files[x]],
            !.dirs = @ \cup DirPrefixes(p) \cup DirPrefixes(Front(Aside(p)))]
SwapIn(S, p) == IF ~HasFile(S, Aside(p)) THEN S ELSE
  [S EXCEPT !.files = [x \in (DOMAIN S.files \ {Aside(p)}) \cup {p} |-> IF x = p THEN S.files[Aside(p)] ELSE S.files[x]],
            !.dirs = @ \ {p}]
HiddenByEnv(S, p) == HasFile(S, Aside(p))
\* a new process starts on the directory the previous one left behind: the registry is empty, the files stay
Restart(S) == [S EXCEPT !.reg = {}]
RemovePath(S, p) == [S EXCEPT !.dirs = { d \in @ : ~(Len(d) >= Len(p) /\ SubSeq(d, 1, Len(p)) = p) },
                              !.files = [x \in { x \in DOMAIN S.files : ~(Len(x) >= Len(p) /\ SubSeq(x, 1, Len(p)) = p) } |-> S.files[x]]]

(***************************************************************************)
(* The abstract view (ExportAbs): what has been exported, and what the     *)
(* directory must then look like.                                          *)
(***************************************************************************)
Exportable(n) == T(n).exportable

RECURSIVE ReachFrom(_, _)
ReachFrom(front, acc) ==
  IF front = {} THEN acc
  ELSE LET n    == CHOOSE x \in front : TRUE
           succ == IF Exportable(n) THEN { T(n).visits[i] : i \in DOMAIN T(n).visits } ELSE {}
           new  == { x \in succ : x \in TypeNames /\ Exportable(x) } \ (acc \cup {n})
       IN ReachFrom((front \ {n}) \cup new, acc \cup {n})

\* the types an Ok call exports
Closure(c) == IF c.entry = "export" THEN {c.ty} ELSE ReachFrom({c.ty}, {})

\* where a type lives for a given directory spelling: the documented rule base.join(output_path()), normalised
Loc(dir, n) == Normal(Cwd, Join(dir, P(FALSE, T(n).out)))

=============================================================================
