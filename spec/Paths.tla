------------------------------- MODULE Paths -------------------------------
(***************************************************************************)
(* Path arithmetic of the exporter (ts-rs/src/export/path.rs, and          *)
(* import_path / is_same_file of ts-rs/src/export.rs), transcribed arm for *)
(* arm, next to an independent statement of what an import specifier has   *)
(* to satisfy (property C08).                                              *)
(*                                                                         *)
(* Strings are sequences of one-character strings, so that suffixes and    *)
(* separators are visible to TLC.  A path is a record                      *)
(*    [abs |-> BOOLEAN, cs |-> Seq(Component)]                             *)
(* whose components are names, Dot or DotDot - exactly what                *)
(* std::path::Path::components() yields after the root.                    *)
(***************************************************************************)
EXTENDS Naturals, Sequences, SequencesExt, TLC

Dot    == <<".">>
DotDot == <<".", ".">>
Slash  == "/"
TsExt  == <<".", "t", "s">>
JsExt  == <<".", "j", "s">>

P(abs, cs) == [abs |-> abs, cs |-> cs]


EndsWith(s, suf) == Len(s) >= Len(suf) /\ SubSeq(s, Len(s) - Len(suf) + 1, Len(s)) = suf
StartsWith(s, pre) == Len(s) >= Len(pre) /\ SubSeq(s, 1, Len(pre)) = pre
StripSuffixOnce(s, suf) == IF EndsWith(s, suf) THEN SubSeq(s, 1, Len(s) - Len(suf)) ELSE s

RECURSIVE StripSuffixAll(_, _)
StripSuffixAll(s, suf) == IF EndsWith(s, suf) THEN StripSuffixAll(SubSeq(s, 1, Len(s) - Len(suf)), suf) ELSE s

(***************************************************************************)
(* std::path semantics                                                     *)
(***************************************************************************)
\* Path::components(): interior "." disappear, a leading "." of a relative path stays.
RECURSIVE DropDots(_)
DropDots(cs) == IF cs = <<>> THEN <<>>
                ELSE IF Head(cs) = Dot THEN DropDots(Tail(cs))
                ELSE <<Head(cs)>> \o DropDots(Tail(cs))

Components(p) == IF p.abs \/ p.cs = <<>> THEN P(p.abs, DropDots(p.cs))
                 ELSE IF Head(p.cs) = Dot THEN P(FALSE, <<Dot>> \o DropDots(Tail(p.cs)))
                 ELSE P(FALSE, DropDots(p.cs))

\* Path::join
Join(a, b) == IF b.abs THEN b ELSE P(a.abs, a.cs \o b.cs)

\* Path::parent() of a path with at least one component after the root
Parent(p) == P(p.abs, Front(p.cs))

(***************************************************************************)
(* path.rs: absolute                                                       *)
(*   The Vec `out` holds Component values; RootDir is one of them.  In the *)
(*   repaired code a ".." that would pop the root component is an error    *)
(*   (constant PopRoot = FALSE); the pinned code popped it and produced a  *)
(*   *relative* path (PopRoot = TRUE is kept so the old behaviour can be   *)
(*   model-checked against the property).                                  *)
(***************************************************************************)
CONSTANT PopRoot, StripAll
\* Errors: a component sequence holding the single pseudo-component <<"ERR">> (TLC refuses to
\* compare values of different shapes, so the error value has the shape of a component list).
Err == << <<"ERR">> >>
IsErr(x) == x = Err
ErrP == [abs |-> FALSE, cs |-> Err]
IsErrP(p) == p.cs = Err

Root == <<"ROOT">>

RECURSIVE AbsLoop(_, _)
AbsLoop(out, cs) ==
  IF cs = <<>> THEN out
  ELSE LET c == Head(cs) IN
       IF c = Dot THEN AbsLoop(out, Tail(cs))                          \* C::CurDir => ()
       ELSE IF c = DotDot THEN                                         \* C::ParentDir => pop or error
              IF out = <<>> THEN Err
              ELSE IF Last(out) = Root /\ ~PopRoot THEN Err
              ELSE AbsLoop(Front(out), Tail(cs))
       ELSE AbsLoop(Append(out, c), Tail(cs))                          \* comp => push

Absolute(cwd, p) ==
  LET j   == Components(Join(cwd, p))
      out == AbsLoop(<<>>, IF j.abs THEN <<Root>> \o j.cs ELSE j.cs) IN
  IF IsErr(out) THEN ErrP
  ELSE IF out = <<>> THEN P(FALSE, <<Dot>>)
  ELSE IF Head(out) = Root THEN P(TRUE, Tail(out))
  ELSE P(FALSE, out)

(***************************************************************************)
(* path.rs: diff_paths(path, base) - the five arms of the loop             *)
(***************************************************************************)
FullComps(p) == IF p.abs THEN <<Root>> \o p.cs ELSE p.cs

RECURSIVE Repeat(_, _)
Repeat(x, n) == IF n = 0 THEN <<>> ELSE <<x>> \o Repeat(x, n - 1)

RECURSIVE DiffLoop(_, _, _)
DiffLoop(a, b, comps) ==
  IF a = <<>> /\ b = <<>> THEN comps                                        \* (None, None) => break
  ELSE IF b = <<>> THEN comps \o a                                          \* (Some(a), None) => push a + rest
  ELSE IF a = <<>> THEN DiffLoop(a, Tail(b), Append(comps, DotDot))         \* (None, _) => push ParentDir
  ELSE IF comps = <<>> /\ Head(a) = Head(b) THEN DiffLoop(Tail(a), Tail(b), comps)
  ELSE comps \o Repeat(DotDot, Len(b)) \o a                                 \* ParentDir for b and the rest of b, then a

DiffPaths(cwd, path, base) ==
  LET pa == Absolute(cwd, path)
      ba == Absolute(cwd, base) IN
  IF IsErrP(pa) \/ IsErrP(ba) THEN ErrP
  ELSE P(FALSE, DiffLoop(FullComps(pa), FullComps(ba), <<>>))

(***************************************************************************)
(* export.rs: import_path(from, import)                                    *)
(***************************************************************************)
RECURSIVE JoinSlash(_)
JoinSlash(cs) == IF cs = <<>> THEN <<>>
                 ELSE IF Len(cs) = 1 THEN cs[1]
                 ELSE cs[1] \o <<Slash>> \o JoinSlash(Tail(cs))

\* to_string_lossy of a relative path made of components (Root cannot occur when both sides are absolute)
RenderRel(cs) == JoinSlash(cs)

ImportPath(cwd, from, import, esm) ==
  LET rel == DiffPaths(cwd, import, Parent(from)) IN
  IF IsErrP(rel) THEN [ok |-> FALSE, spec |-> <<>>]
  ELSE LET s0 == RenderRel(rel.cs)
           s1 == IF rel.cs # <<>> /\ Head(rel.cs) \notin {DotDot, Dot, Root}
                 THEN <<".", Slash>> \o s0 ELSE s0              \* Some(Component::Normal(_)) => "./" prefix
           s2 == IF StripAll THEN StripSuffixAll(s1, TsExt) ELSE StripSuffixOnce(s1, TsExt)
       IN [ok |-> TRUE, spec |-> IF esm THEN s2 \o JsExt ELSE s2]

(***************************************************************************)
(* What the property demands (independent of the above): POSIX-style       *)
(* lexical normalisation, and module resolution of a relative specifier.   *)
(***************************************************************************)
RECURSIVE NormLoop(_, _)
NormLoop(stack, cs) ==
  IF cs = <<>> THEN stack
  ELSE IF Head(cs) = Dot THEN NormLoop(stack, Tail(cs))
  ELSE IF Head(cs) = DotDot THEN (IF stack = <<>> THEN Err ELSE NormLoop(Front(stack), Tail(cs)))
  ELSE NormLoop(Append(stack, Head(cs)), Tail(cs))

\* the file denoted by p when the process runs in cwd (cwd is absolute and clean); Err above the root
Normal(cwd, p) == NormLoop(IF p.abs THEN <<>> ELSE cwd.cs, p.cs)

RECURSIVE SplitOn(_, _, _)
SplitOn(s, sep, cur) ==
  IF s = <<>> THEN <<cur>>
  ELSE IF Head(s) = sep THEN <<cur>> \o SplitOn(Tail(s), sep, <<>>)
  ELSE SplitOn(Tail(s), sep, Append(cur, Head(s)))

Segments(spec) == SplitOn(spec, Slash, <<>>)

HasChar(s, ch) == \E i \in DOMAIN s : s[i] = ch

\* relative specifier: starts with "./" or "../", forward slashes only, no empty segment
WellFormedSpec(spec) ==
  /\ (StartsWith(spec, <<".", Slash>>) \/ StartsWith(spec, <<".", ".", Slash>>))
  /\ ~HasChar(spec, "\\")
  /\ \A i \in DOMAIN Segments(spec) : Segments(spec)[i] # <<>>

\* TypeScript resolution of `import .. from "<spec>"` in a file living in directory dir:
\* walk the segments, then add the extension.
Resolve(dir, spec, esm) ==
  LET s    == IF esm THEN StripSuffixOnce(spec, JsExt) ELSE spec
      segs == Segments(s)
      walk == NormLoop(dir, segs) IN
  IF IsErr(walk) \/ walk = <<>> THEN Err
  ELSE Front(walk) \o <<Last(walk) \o TsExt>>

\* a specifier that already ends in a TypeScript module extension other than .ts (a file-form export_to such as
\* `models.mts` is written verbatim, and so is the specifier) names that very file (allowImportingTsExtensions)
MtsExt == <<".", "m", "t", "s">>
ResolveX(dir, spec, esm) ==
  LET s == IF esm THEN StripSuffixOnce(spec, JsExt) ELSE spec IN
  IF EndsWith(s, MtsExt)
  THEN LET walk == NormLoop(dir, Segments(s)) IN IF IsErr(walk) \/ walk = <<>> THEN Err ELSE walk
  ELSE Resolve(dir, spec, esm)

\* C08 for one pair, given the result `r` the implementation (or the model of it) produced
C08_Holds(cwd, from, to, esm, r) ==
  LET nf == Normal(cwd, from)
      nt == Normal(cwd, to) IN
  IF IsErr(nf) \/ IsErr(nt)
  THEN ~r.ok                                    \* a location above the root is an error, never a path
  ELSE /\ r.ok
       /\ WellFormedSpec(r.spec)
       /\ (esm => EndsWith(r.spec, JsExt))       \* without esm the equation below already forbids an added ".js"
       /\ Resolve(Front(nf), r.spec, esm) = nt

ModelResult(cwd, from, to, esm) == ImportPath(cwd, from, to, esm)

=============================================================================
