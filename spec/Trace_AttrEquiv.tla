--------------------------- MODULE Trace_AttrEquiv ---------------------------
(***************************************************************************)
(* ADJUDICATE for C10: a record is one pair of spellings after the real    *)
(* derive ran on both: realA / realB in {"OK","ERR","PANIC"}, same = both  *)
(* produced the same implementation.  The property: neither spelling       *)
(* breaks compilation and the bindings are identical.                      *)
(***************************************************************************)
EXTENDS Naturals, Sequences, TLC, Json, IOUtils
Rec == ndJsonDeserialize(IOEnv.VERIF_TRACE)
VARIABLE i
Init == i = 0
Next == i = 0 /\ i' \in DOMAIN Rec
Spec == Init /\ [][Next]_i
R == Rec[i]
C10_Holds == R.realA = "OK" /\ R.realB = "OK" /\ R.same
Judge == i = 0 \/
  /\ (C10_Holds \/ PrintT(<<"BAD", ToJson(i)>>))
  /\ ((R.same = R.pred_same) \/ PrintT(<<"DRIFT", ToJson(i)>>))
=============================================================================
