------------------------------ MODULE MC_Export ------------------------------
(***************************************************************************)
(* The exporter under concurrency: Threads each run a fixed list of calls  *)
(* (U.plans[t]); any enabled thread may take its next step (Export.Step),  *)
(* with every visit order.  Checked by TLC over all interleavings:         *)
(*   - whenever nobody is inside export_and_merge, every registered file   *)
(*     is the canonical file of its registered names (C05, C06)            *)
(*   - nothing panics, the lock is never poisoned (C17)                    *)
(*   - an Ok call has registered its whole closure (C11)                   *)
(*   - every call returns (liveness, under weak fairness per thread)       *)
(***************************************************************************)
EXTENDS ExportAbs

Threads == DOMAIN U.plans

VARIABLES S, pos     \* pos[t]: how many calls of its plan thread t has started
vars == <<S, pos>>

Init == S = InitState(Threads) /\ pos = [t \in Threads |-> 0]

Start(t) == /\ S.thr[t].pc = "idle" /\ pos[t] < Len(U.plans[t])
            /\ S' = StartCall(S, t, U.calls[U.plans[t][pos[t] + 1]])
            /\ pos' = [pos EXCEPT ![t] = @ + 1]

Run(t) == /\ Enabled(S, t)
          /\ \E k \in ThreadChoices(S, t) : S' = Step(S, t, k)
          /\ UNCHANGED pos

Next == \E t \in Threads : Start(t) \/ Run(t)
Spec == Init /\ [][Next]_vars
FairSpec == Spec /\ \A t \in Threads : WF_vars(Start(t) \/ Run(t))

Inv_C05_C06 == C05_C06_State(S)
Inv_C17     == C17_State(S)
Inv_Mutex   == \A t \in Threads : S.thr[t].pc \in {"Lookup", "Create_write", "Reg_insert_new", "Open_read",
                                                    "Merge_seek_write", "Reg_insert", "Unlock"} => S.lock = t
Done == \A t \in Threads : S.thr[t].pc = "idle" /\ pos[t] = Len(U.plans[t])
Inv_Closure == Done => \A t \in Threads : \A k \in DOMAIN U.plans[t] :
                  LET c == U.calls[U.plans[t][k]] IN CallDone(S, c)
Live == <>Done
=============================================================================
