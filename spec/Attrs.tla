------------------------------- MODULE Attrs -------------------------------
(***************************************************************************)
(* Attribute handling of the derive: the key tables of impl_parse!         *)
(* (macros/src/attr/{struct,enum,variant,field}.rs), the merge of serde    *)
(* attributes underneath ts attributes, every assert_validity clause, the  *)
(* check_attributes clauses of unit.rs, and the dispatch on the shape of   *)
(* the item (types/mod.rs:type_def, enum.rs:format_variant) as far as it   *)
(* decides between  Accept / Reject / RejectAtTypeck.                      *)
(*                                                                         *)
(* An item is a record                                                     *)
(*   [kind, shape, c, vshape, v, f, fty]                                   *)
(* kind   : "struct" | "enum"                                              *)
(* shape  : (struct) "named" | "named0" | "tuple" | "tuple0" | "newtype" | "unit" *)
(* vshape : (enum: shape of the first variant) same alphabet               *)
(* c,v,f  : sequences of attributes on the container, the first variant,   *)
(*          the first field: [ns |-> "ts"|"serde", key |-> STRING,         *)
(*          val |-> "ok" | "bad"]  ("bad": a value of the wrong form)      *)
(* fty    : type of the first field: "i32" | "opt" | "inner"               *)
(* Every attribute is written in its own #[..] list.                       *)
(***************************************************************************)
EXTENDS Naturals, Sequences, FiniteSets, TLC

CONSTANT SerdeCompat     \* feature serde-compat

TsKeys(pos) ==
  CASE pos = "struct"  -> {"crate", "as", "type", "rename", "rename_all", "tag", "export", "export_to", "concrete", "bound", "optional_fields"}
    [] pos = "enum"    -> {"crate", "as", "type", "rename", "rename_all", "rename_all_fields", "export_to", "export", "tag", "content", "untagged", "concrete", "bound"}
    [] pos = "variant" -> {"as", "type", "rename", "rename_all", "inline", "skip", "untagged"}
    [] pos = "field"   -> {"as", "type", "rename", "inline", "skip", "optional", "flatten"}

SerdeKeys(pos) ==
  CASE pos = "struct"  -> {"rename", "rename_all", "tag", "bound", "deny_unknown_fields", "default"}
    [] pos = "enum"    -> {"rename", "rename_all", "rename_all_fields", "tag", "content", "untagged", "bound"}
    [] pos = "variant" -> {"rename", "rename_all", "skip", "untagged"}
    [] pos = "field"   -> {"rename", "skip", "flatten", "default", "with"}

\* serde keys that only exist to stay quiet: they set nothing (except `with`)
SerdeInert == {"deny_unknown_fields", "default", "bound"}

SeqToSet(s) == { s[i] : i \in DOMAIN s }

(***************************************************************************)
(* Parsing.  Result: "reject" or the set of effective keys.                *)
(*  - an unknown ts key, or a ts value of the wrong form, is an error      *)
(*  - serde lists are parsed only with serde-compat (and, for fields and   *)
(*    variants, only if ts did not say skip); an unknown serde key is      *)
(*    skipped; a serde list that fails to parse is dropped whole           *)
(***************************************************************************)
TsAttrs(as)    == { a \in SeqToSet(as) : a.ns = "ts" }
SerdeAttrs(as) == { a \in SeqToSet(as) : a.ns = "serde" }

TsRejects(pos, as) == \E a \in TsAttrs(as) : a.key \notin TsKeys(pos) \/ a.val = "bad"

TsSet(as) == { a.key : a \in TsAttrs(as) }
SerdeSet(pos, as) == { a.key : a \in { a \in SerdeAttrs(as) : a.key \in SerdeKeys(pos) /\ a.val = "ok" /\ a.key \notin SerdeInert } }

Effective(pos, as) ==
  LET ts == TsSet(as) IN
  IF ~SerdeCompat \/ (pos \in {"field", "variant"} /\ "skip" \in ts) THEN ts
  ELSE ts \cup SerdeSet(pos, as)

Has(E, k) == k \in E
AnyOf(E, ks) == E \cap ks # {}

(***************************************************************************)
(* assert_validity, per position (E: effective keys)                       *)
(***************************************************************************)
IsNamedShape(sh) == sh \in {"named", "named0"}
IsUnnamedShape(sh) == sh \in {"tuple", "tuple0", "newtype"}

StructInvalid(E, shape) ==
  \/ Has(E, "type") /\ AnyOf(E, {"as", "rename_all", "tag", "optional_fields"})
  \/ Has(E, "as") /\ AnyOf(E, {"tag", "rename_all", "optional_fields"})
  \/ ~IsNamedShape(shape) /\ AnyOf(E, {"tag", "rename_all", "optional_fields"})

EnumInvalid(E) ==
  \/ Has(E, "type") /\ AnyOf(E, {"as", "rename_all", "rename_all_fields", "tag", "content", "untagged"})
  \/ Has(E, "as") /\ AnyOf(E, {"rename_all", "rename_all_fields", "tag", "content", "untagged"})
  \/ Has(E, "untagged") /\ AnyOf(E, {"tag", "content"})
  \/ Has(E, "content") /\ ~Has(E, "tag")

VariantInvalid(E, vshape) ==
  \/ Has(E, "as") /\ AnyOf(E, {"type", "rename_all"})
  \/ Has(E, "type") /\ AnyOf(E, {"rename_all", "inline"})
  \/ ~IsNamedShape(vshape) /\ Has(E, "rename_all")

FieldInvalid(E, named) ==
  \/ SerdeCompat /\ Has(E, "with") /\ ~AnyOf(E, {"as", "type"})
  \/ Has(E, "type") /\ AnyOf(E, {"as", "inline", "flatten", "optional"})
  \/ Has(E, "flatten") /\ AnyOf(E, {"as", "rename", "inline", "optional"})
  \/ ~named /\ AnyOf(E, {"flatten", "rename", "optional"})

\* `#[ts(optional)]` on a field whose (possibly `as`-replaced) type is not an Option: rustc rejects
OptionalTypeck(E, fty) == Has(E, "optional") /\ (Has(E, "as") \/ fty # "opt")

(***************************************************************************)
(* The fields of a struct or of a variant, as type_def sees them.          *)
(* ra / tag: whether the (derived) StructAttr carries rename_all / tag.    *)
(***************************************************************************)
FieldOutcome(f, fty, named) ==
  IF TsRejects("field", f) THEN "Reject"
  ELSE LET E == Effective("field", f) IN
       IF FieldInvalid(E, named) THEN "Reject"
       ELSE IF Has(E, "skip") \/ Has(E, "type") THEN "Accept"
       ELSE IF named /\ OptionalTypeck(E, fty) THEN "RejectAtTypeck"
       ELSE "Accept"

BodyOutcome(shape, ra, tag, f, fty) ==
  CASE shape = "named0" /\ ~tag -> IF ra THEN "Reject" ELSE "Accept"       \* unit::empty_object + check_attributes
    [] shape \in {"named", "named0"} -> IF shape = "named" THEN FieldOutcome(f, fty, TRUE) ELSE "Accept"
    [] shape = "tuple0" -> "Accept"
    [] shape \in {"newtype", "tuple"} -> FieldOutcome(f, fty, FALSE)
    [] shape = "unit" -> "Accept"

(***************************************************************************)
(* The model of the code                                                   *)
(***************************************************************************)
StructOutcome(it) ==
  IF TsRejects("struct", it.c) THEN "Reject"
  ELSE LET E == Effective("struct", it.c) IN
       IF StructInvalid(E, it.shape) THEN "Reject"
       ELSE IF AnyOf(E, {"type", "as"}) THEN "Accept"                         \* the fields are never looked at
       ELSE BodyOutcome(it.shape, Has(E, "rename_all"), Has(E, "tag"), it.f, it.fty)

EnumOutcome(it) ==
  IF TsRejects("enum", it.c) THEN "Reject"
  ELSE LET E == Effective("enum", it.c) IN
       IF EnumInvalid(E) THEN "Reject"
       ELSE IF AnyOf(E, {"type", "as"}) THEN "Accept"                         \* the variants are never looked at
       ELSE IF TsRejects("variant", it.v) THEN "Reject"
       ELSE LET V == Effective("variant", it.v) IN
            IF VariantInvalid(V, it.vshape) THEN "Reject"
            ELSE IF Has(V, "skip") THEN "Accept"                            \* the fields are never looked at
            ELSE LET ra  == Has(V, "rename_all") \/ (IsNamedShape(it.vshape) /\ Has(E, "rename_all_fields"))
                     tag == IsNamedShape(it.vshape) /\ Has(E, "tag") /\ ~Has(E, "content") /\ ~Has(E, "untagged")
                            /\ ~Has(V, "untagged")      \* an untagged variant does not carry the enum's tag
                     body == BodyOutcome(it.vshape, ra, tag, it.f, it.fty)
                 IN \* the variant's own definition is validated even when `as`/`type` replace it, but then
                    \* its text (with the compile-time Option check) is not used
                    IF body = "RejectAtTypeck" /\ AnyOf(V, {"as", "type"}) THEN "Accept" ELSE body

Outcome(it) == IF it.kind = "struct" THEN StructOutcome(it) ELSE EnumOutcome(it)

(***************************************************************************)
(* What the property demands: everything that is invalid ANYWHERE in the   *)
(* item is diagnosed - independently of the order in which the code looks  *)
(* at things.                                                              *)
(***************************************************************************)
FieldDocumented(f, named) ==
  \/ TsRejects("field", f)
  \/ FieldInvalid(Effective("field", f), named)

HasField(shape) == shape \in {"named", "tuple", "newtype"}

Documented(it) ==
  IF it.kind = "struct"
  THEN \/ TsRejects("struct", it.c)
       \/ StructInvalid(Effective("struct", it.c), it.shape)
       \/ HasField(it.shape) /\ FieldDocumented(it.f, it.shape = "named")
  ELSE \/ TsRejects("enum", it.c)
       \/ EnumInvalid(Effective("enum", it.c))
       \/ TsRejects("variant", it.v)
       \/ VariantInvalid(Effective("variant", it.v), it.vshape)
       \/ HasField(it.vshape) /\ FieldDocumented(it.f, it.vshape = "named")

\* C16 on one item, given the observed outcome:
\*   real in {"OK", "ERR", "PANIC"} from the in-process expansion;
\*   compiled in {"na", "ok", "fail", "fail_isoption", "panic"} from rustc (accepted expansions, and a
\*   sample of rejected items to exercise the real entry point)
C16_NoPanic(real, compiled) == real # "PANIC" /\ compiled # "panic"
\* the real entry point (typescript -> entry -> to_compile_error) turns a rejection into an ordinary error
C16_EntryPoint(real, compiled) == (real = "ERR" /\ compiled # "na") => compiled = "fail"
C16_Diagnosed(it, real, compiled) == Documented(it) => (real = "ERR" \/ compiled \in {"fail", "fail_isoption"})
C16_Compiles(it, real, compiled) ==
  (real = "OK" /\ compiled # "na" /\ ~Documented(it)) =>
     IF Outcome(it) = "RejectAtTypeck" THEN compiled = "fail_isoption" ELSE compiled = "ok"

(***************************************************************************)
(* C10: lists, values and the merge.  Here an attribute LIST is            *)
(*   [ns |-> "ts"|"serde", entries |-> Seq([key, val, cls])]               *)
(* val: "v1" | "v2" (two valid values) | "flag";                           *)
(* cls (only meaningful for serde entries): how impl_parse!{Serde<..>}     *)
(*   treats the entry at this position:                                    *)
(*   "known"     a supported key with a value of the right form            *)
(*   "inert"     a key parsed only to stay quiet (default, deny_unknown..) *)
(*   "unknown"   not in the table: skipped up to the next comma            *)
(*   "bad"       a key of the table with a value it cannot parse           *)
(*               (rename(serialize = ..), bound(..)): pinned code dropped  *)
(*               the WHOLE list (parse_serde_attrs .ok()), the repaired    *)
(*               code parses a serde list entry by entry                   *)
(* The effective attributes are a function key -> value ("none" if unset). *)
(***************************************************************************)
CONSTANT DropWholeList

AllKeys == {"rename", "rename_all", "rename_all_fields", "tag", "content", "untagged", "skip", "flatten", "inline", "optional", "as", "type",
            "export", "optional_fields"}
NoAttrs == [k \in AllKeys |-> "none"]

\* `a.merge(b)`: Option::or / || - what is set first wins
MergeEff(a, b) == [k \in AllKeys |-> IF a[k] # "none" THEN a[k] ELSE b[k]]

RECURSIVE SetAll(_, _)
SetAll(e, entries) ==      \* within one list a later assignment overwrites
  IF entries = <<>> THEN e ELSE SetAll([e EXCEPT ![entries[1].key] = entries[1].val], Tail(entries))

TsListEff(l) == SetAll(NoAttrs, l.entries)

SerdeListEff(l) ==
  IF DropWholeList
  THEN IF \E i \in DOMAIN l.entries : l.entries[i].cls = "bad" THEN NoAttrs
       ELSE SetAll(NoAttrs, SelectSeq(l.entries, LAMBDA x : x.cls = "known"))
  ELSE LET RECURSIVE One(_, _)
           One(e, es) == IF es = <<>> THEN e
                         ELSE One(IF es[1].cls = "known" THEN MergeEff(e, [NoAttrs EXCEPT ![es[1].key] = es[1].val]) ELSE e, Tail(es))
       IN One(NoAttrs, l.entries)

RECURSIVE FoldLists(_, _, _)
FoldLists(e, lists, ns) ==
  IF lists = <<>> THEN e
  ELSE IF lists[1].ns # ns THEN FoldLists(e, Tail(lists), ns)
  ELSE FoldLists(MergeEff(e, IF ns = "ts" THEN TsListEff(lists[1]) ELSE SerdeListEff(lists[1])), Tail(lists), ns)

\* from_attrs: ts lists first; serde lists underneath, unless compat is off or (fields, variants) ts says skip
EffAttrs(pos, lists) ==
  LET ts == FoldLists(NoAttrs, lists, "ts") IN
  IF ~SerdeCompat \/ (pos \in {"field", "variant"} /\ ts["skip"] # "none") THEN ts
  ELSE MergeEff(ts, FoldLists(NoAttrs, lists, "serde"))

\* the keys that are set, and whether assert_validity of the position accepts them (carrier shapes: named)
KeysSet(e) == { k \in AllKeys : e[k] # "none" }
PosInvalid(pos, K) ==
  CASE pos = "struct"  -> StructInvalid(K, "named")
    [] pos = "enum"    -> EnumInvalid(K)
    [] pos = "variant" -> VariantInvalid(K, "named")
    [] pos = "field"   -> FieldInvalid(K, TRUE)

\* the four statements of C10, on two attribute-list sequences A and B of one position
\* (a skipped field / variant is not bound at all: whatever else is set on it makes no difference)
C10_Same(pos, A, B) ==
  LET a == EffAttrs(pos, A) b == EffAttrs(pos, B) IN
  a = b \/ (pos \in {"field", "variant"} /\ a["skip"] # "none" /\ b["skip"] # "none")

=============================================================================
