-------------------------- MODULE Trace_Confluence --------------------------
(***************************************************************************)
(* ADJUDICATE, second pass (C05, C06): the final directory contents are a  *)
(* function of what was exported.  Records are [key, sha, hid], sorted by  *)
(* key, where key identifies the initial contents and the set of           *)
(* <<location, declaration>> pairs the abstract specification reached, and *)
(* sha identifies the bytes of every regular file of the final tree.       *)
(***************************************************************************)
EXTENDS Naturals, Sequences, TLC, Json, IOUtils
Rec == ndJsonDeserialize(IOEnv.VERIF_TRACE)
VARIABLE i
\* (records are judged in successor states, i.e. by TLC's worker threads, whose stack size is configurable)
Init == i = 0
Next == i = 0 /\ i' \in DOMAIN Rec
Spec == Init /\ [][Next]_i
Functional == (i > 1 /\ Rec[i].key = Rec[i - 1].key) => Rec[i].sha = Rec[i - 1].sha
Judge == i = 0 \/ Functional \/ PrintT(<<"BAD", ToJson(i)>>)
=============================================================================
