----------------------------- MODULE Inflection -----------------------------
(***************************************************************************)
(* rename_all: the case conversions of ts-rs (macros/src/attr/mod.rs) and  *)
(* of serde_derive 1.0.215 (src/internals/case.rs), transcribed arm for    *)
(* arm over a small alphabet of character CLASSES that separates all the   *)
(* primitive operations involved:                                          *)
(*    "a" ASCII lower      "A" ASCII upper      "1" digit      "_"         *)
(*    "e" non-ASCII lower (e-acute)   "E" non-ASCII upper (E-acute)        *)
(*    "s" sharp s: lower-case, two bytes, Unicode upper-case is "SS"       *)
(* plus "-" and "S", which only occur in results.  A string is a sequence  *)
(* of these.  A result is a string, or Panic.                              *)
(***************************************************************************)
EXTENDS Naturals, Sequences, TLC

Panic == <<"PANIC">>

AsciiLower(c) == IF c = "A" THEN "a" ELSE IF c = "S" THEN "z" ELSE c      \* ("S" never reaches to_ascii_lowercase)
AsciiUpper(c) == IF c = "a" THEN "A" ELSE c
UniLower(c)   == IF c = "A" THEN "a" ELSE IF c = "E" THEN "e" ELSE c
UniUpperS(c)  == IF c = "a" THEN <<"A">> ELSE IF c = "e" THEN <<"E">> ELSE IF c = "s" THEN <<"S", "S">> ELSE <<c>>
IsUpper(c)    == c \in {"A", "E", "S"}          \* char::is_uppercase
OneByte(c)    == c \notin {"e", "E", "s"}

Map(s, F(_)) == [i \in DOMAIN s |-> F(s[i])]
RECURSIVE UniUpperStr(_)
UniUpperStr(s) == IF s = <<>> THEN <<>> ELSE UniUpperS(s[1]) \o UniUpperStr(Tail(s))
Replace(s, x, y) == [i \in DOMAIN s |-> IF s[i] = x THEN y ELSE s[i]]

\* s[..1].to_ascii_lowercase() + &s[1..]  (byte slicing: panics on "" and on a multi-byte first char)
LowerFirstByte(s) == IF s = <<>> \/ ~OneByte(s[1]) THEN Panic ELSE <<AsciiLower(s[1])>> \o Tail(s)
\* the same, by characters (no panic)
LowerFirstChar(s) == IF s = <<>> THEN <<>> ELSE <<AsciiLower(s[1])>> \o Tail(s)

RECURSIVE PascalFrom(_, _)
PascalFrom(s, cap) ==          \* '_' is dropped and capitalises the next character (to_ascii_uppercase)
  IF s = <<>> THEN <<>>
  ELSE IF s[1] = "_" THEN PascalFrom(Tail(s), TRUE)
  ELSE IF cap THEN <<AsciiUpper(s[1])>> \o PascalFrom(Tail(s), FALSE)
  ELSE <<s[1]>> \o PascalFrom(Tail(s), FALSE)
Pascal(s) == PascalFrom(s, TRUE)

RECURSIVE SnakeFrom(_, _)
SnakeFrom(s, first) ==         \* '_' before every upper-case character but the first; to_ascii_lowercase
  IF s = <<>> THEN <<>>
  ELSE (IF IsUpper(s[1]) /\ ~first THEN <<"_">> ELSE <<>>) \o <<AsciiLower(s[1])>> \o SnakeFrom(Tail(s), FALSE)
Snake(s) == SnakeFrom(s, TRUE)

Rules == {"lowercase", "UPPERCASE", "camelCase", "snake_case", "PascalCase", "SCREAMING_SNAKE_CASE",
          "kebab-case", "SCREAMING-KEBAB-CASE"}

(***************************************************************************)
(* serde_derive: apply_to_field assumes snake_case input, apply_to_variant *)
(* assumes PascalCase input.                                               *)
(***************************************************************************)
SerdeField(rule, s) ==
  CASE rule \in {"lowercase", "snake_case"} -> s
    [] rule = "UPPERCASE" -> Map(s, AsciiUpper)
    [] rule = "PascalCase" -> Pascal(s)
    [] rule = "camelCase" -> LowerFirstByte(Pascal(s))
    [] rule = "SCREAMING_SNAKE_CASE" -> Map(s, AsciiUpper)
    [] rule = "kebab-case" -> Replace(s, "_", "-")
    [] rule = "SCREAMING-KEBAB-CASE" -> Replace(Map(s, AsciiUpper), "_", "-")

SerdeVariant(rule, s) ==
  CASE rule = "PascalCase" -> s
    [] rule = "lowercase" -> Map(s, AsciiLower)
    [] rule = "UPPERCASE" -> Map(s, AsciiUpper)
    [] rule = "camelCase" -> LowerFirstByte(s)
    [] rule = "snake_case" -> Snake(s)
    [] rule = "SCREAMING_SNAKE_CASE" -> Map(Snake(s), AsciiUpper)
    [] rule = "kebab-case" -> Replace(Snake(s), "_", "-")
    [] rule = "SCREAMING-KEBAB-CASE" -> Replace(Map(Snake(s), AsciiUpper), "_", "-")

(***************************************************************************)
(* ts-rs.  The pinned tree had ONE routine (Inflection::apply) for fields  *)
(* and variants; the repaired tree has serde's two.  Shared = TRUE selects *)
(* the pinned routine so that TLC can show where it departs from serde.    *)
(***************************************************************************)
CONSTANT Shared

TsShared(rule, s) ==
  CASE rule = "lowercase" -> Map(s, UniLower)                         \* str::to_lowercase
    [] rule = "UPPERCASE" -> UniUpperStr(s)                    \* str::to_uppercase
    [] rule = "camelCase" -> LowerFirstByte(Pascal(s))
    [] rule = "snake_case" -> Snake(s)
    [] rule = "PascalCase" -> Pascal(s)
    [] rule = "SCREAMING_SNAKE_CASE" -> Map(Snake(s), AsciiUpper)
    [] rule = "kebab-case" -> Replace(Snake(s), "_", "-")
    [] rule = "SCREAMING-KEBAB-CASE" -> Map(Replace(Snake(s), "_", "-"), AsciiUpper)

\* the repaired code: same tables as serde, but the first character is lowered by characters
TsField(rule, s) ==
  IF Shared THEN TsShared(rule, s)
  ELSE IF rule = "camelCase" THEN LowerFirstChar(Pascal(s)) ELSE SerdeField(rule, s)

TsVariant(rule, s) ==
  IF Shared THEN TsShared(rule, s)
  ELSE IF rule = "camelCase" THEN LowerFirstChar(s) ELSE SerdeVariant(rule, s)

Ts(pos, rule, s)    == IF pos = "field" THEN TsField(rule, s) ELSE TsVariant(rule, s)
Serde(pos, rule, s) == IF pos = "field" THEN SerdeField(rule, s) ELSE SerdeVariant(rule, s)

(***************************************************************************)
(* Properties                                                              *)
(***************************************************************************)
\* C09: wherever serde has a name for the identifier, the binding uses the same name
C09_Holds(ts, serde) == serde # Panic => ts = serde
\* C16 (the part that lives here): ts-rs never panics, whatever serde_derive does
C16_Holds(ts) == ts # Panic

=============================================================================
