------------------------------- MODULE MC_Docs -------------------------------
(***************************************************************************)
(* PREDICT for C15: doc texts (sequences of lines over a token alphabet    *)
(* given by the configuration) x comment syntax x position.  The model     *)
(* (RenderDocs: transcription of macros/src/utils.rs parse_docs) renders   *)
(* the JSDoc block; the model verdict Contained says that the rendered     *)
(* block lexes (Lexical.tla) to exactly one comment token, i.e. that no    *)
(* documentation text ends its comment early.                              *)
(***************************************************************************)
EXTENDS Lexical, Json, IOUtils
Cfg == JsonDeserialize(IOEnv.VERIF_CFG)
\* Cfg.tokens: sequence of [name, chars (sequence of [c, k])], Cfg.maxlines, Cfg.syntaxes, Cfg.positions
S(seq) == { seq[i] : i \in DOMAIN seq }

VARIABLES lines, syntax, pos, done
vars == <<lines, syntax, pos, done>>
Init == lines = <<>> /\ syntax \in S(Cfg.syntaxes) /\ pos \in S(Cfg.positions) /\ done = FALSE
AddLine == ~done /\ Len(lines) < Cfg.maxlines /\ \E t \in DOMAIN Cfg.tokens : lines' = Append(lines, t) /\ UNCHANGED <<syntax, pos, done>>
Finish == ~done /\ lines # <<>> /\ done' = TRUE /\ UNCHANGED <<lines, syntax, pos>>
Next == AddLine \/ Finish
Spec == Init /\ [][Next]_vars

NL == Ch("\n", "nl")
SP == Ch(" ", "space")
Str(s) == [i \in DOMAIN s |-> Ch(s[i], IF s[i] \in {"/", "*"} THEN "punct" ELSE "space")]
LineChars(t) == Cfg.tokens[t].chars

\* the value of the doc attributes: `/// x` gives " x" per line; #[doc = "x"] gives "x"; a block comment one value with newlines
\* "mixed": a block comment followed by one more `///` line (Cfg.tail) - several values, one of them with line breaks
BlockValue == LET RECURSIVE Join(_)
                  Join(k) == IF k > Len(lines) THEN <<>> ELSE (IF k > 1 THEN <<NL>> ELSE <<>>) \o LineChars(lines[k]) \o Join(k + 1)
              IN <<SP>> \o Join(1) \o <<SP>>
AttrValues ==
  IF syntax = "block" THEN << BlockValue >>
  ELSE IF syntax = "mixed" THEN << BlockValue, <<SP>> \o Cfg.tail >>
  ELSE [k \in DOMAIN lines |-> IF syntax = "line" THEN <<SP>> \o LineChars(lines[k]) ELSE LineChars(lines[k])]

\* parse_docs: one value containing a line break => /**{value}*/ (empty interior lines written as " *");
\* otherwise /**\n *{v1}\n *{v2} ..\n */
RECURSIVE SplitNL(_, _)
SplitNL(cs, cur) == IF cs = <<>> THEN <<cur>>
                    ELSE IF cs[1].k = "nl" THEN <<cur>> \o SplitNL(Tail(cs), <<>>)
                    ELSE SplitNL(Tail(cs), Append(cur, cs[1]))
RECURSIVE JoinNL(_)
JoinNL(ls) == IF ls = <<>> THEN <<>> ELSE IF Len(ls) = 1 THEN ls[1] ELSE ls[1] \o <<NL>> \o JoinNL(Tail(ls))
HasNL(cs) == \E k \in DOMAIN cs : cs[k].k = "nl"
\* `*/` inside the body is written `*\/`; a body starting with `/` gets a space in front of it
RECURSIVE EscapeClose(_)
EscapeClose(cs) == IF Len(cs) < 2 THEN cs
                   ELSE IF cs[1].c = "*" /\ cs[2].c = "/" THEN <<cs[1], Ch("\\", "punct")>> \o EscapeClose(Tail(cs))
                   ELSE <<cs[1]>> \o EscapeClose(Tail(cs))
Body(inner) == LET e == EscapeClose(inner) IN IF e # <<>> /\ e[1].c = "/" THEN <<SP>> \o e ELSE e

RenderDocs ==
  LET vals == AttrValues
      inner == IF Len(vals) = 1 /\ HasNL(vals[1]) THEN vals[1]
               ELSE <<NL>> \o JoinNL([k \in DOMAIN vals |-> Str(<<" ", "*">>) \o vals[k]]) \o <<NL, SP>>
      text == Str(<<"/", "*", "*">>) \o Body(inner) \o Str(<<"*", "/">>)
      ls == SplitNL(text, <<>>)
      fixed == [k \in DOMAIN ls |-> IF k > 1 /\ k < Len(ls) /\ ls[k] = <<>> THEN Str(<<" ", "*">>) ELSE ls[k]]
  IN JoinNL(fixed) \o <<NL>>

Contained == LET t == Lex(RenderDocs) IN LexOK(t) /\ Len(t) = 1 /\ t[1].t = "cmt"
EmitCase == done => PrintT(<<"CASE", ToJson([lines |-> lines, syntax |-> syntax, pos |-> pos, contained |-> Contained])>>)
=============================================================================
