------------------------------ MODULE TsTypes ------------------------------
(***************************************************************************)
(* JSON values, the TypeScript types ts-rs can emit, and the denotation    *)
(* the properties C01 / C02 / C12 / C14 / C07 talk about:                  *)
(*    Member(j, t, env)  <=>  JSON value j inhabits type t                 *)
(* reading object types as EXACT, `bigint` as a JSON integer, and          *)
(* following references through the declarations in env.                   *)
(*                                                                         *)
(* Values (uniformly tagged, so TLC never compares an integer to a string) *)
(*   [k |-> "null"] [k |-> "bool", v |-> b] [k |-> "int", v |-> n]          *)
(*   [k |-> "float"] [k |-> "str", v |-> s] [k |-> "arr", v |-> <<..>>]     *)
(*   [k |-> "obj", v |-> << <<key, value>>, .. >>]                          *)
(* Types (tagged records, collections are sequences)                       *)
(*   [k |-> "kw", v |-> "number"|"bigint"|"string"|"boolean"|"null"|       *)
(*                      "never"|"any"|"unknown"|"undefined"|"void"]        *)
(*   [k |-> "lit", v |-> s]            string literal type                 *)
(*   [k |-> "array", e |-> T]          T[] and Array<T>                    *)
(*   [k |-> "tuple", es |-> <<T..>>]                                       *)
(*   [k |-> "obj", ms |-> <<[key, opt, ty]..>>, idx |-> <<[kty, opt, vty]..>>] *)
(*   [k |-> "union", ts |-> <<T..>>]   [k |-> "inter", ts |-> <<T..>>]     *)
(*   [k |-> "ref", n |-> name, as |-> <<T..>>]   reference / type parameter *)
(* env: name -> [params |-> <<names>>, body |-> T]                         *)
(***************************************************************************)
EXTENDS Naturals, Sequences, FiniteSets, TLC

Kw(v)  == [k |-> "kw", v |-> v]
Never  == Kw("never")

\* ------------------------------------------------------------------ substitution of type parameters
RECURSIVE Subst(_, _)
MapSeq(s, F(_)) == [i \in DOMAIN s |-> F(s[i])]
Subst(t, sub) ==     \* sub: parameter name -> type (a record/function on strings)
  CASE t.k = "ref" -> IF t.as = <<>> /\ t.n \in DOMAIN sub THEN sub[t.n]
                      ELSE [k |-> "ref", n |-> t.n, as |-> [i \in DOMAIN t.as |-> Subst(t.as[i], sub)]]
    [] t.k = "array" -> [k |-> "array", e |-> Subst(t.e, sub)]
    [] t.k = "tuple" -> [k |-> "tuple", es |-> [i \in DOMAIN t.es |-> Subst(t.es[i], sub)]]
    [] t.k \in {"union", "inter"} -> [k |-> t.k, ts |-> [i \in DOMAIN t.ts |-> Subst(t.ts[i], sub)]]
    [] t.k = "obj" -> [k |-> "obj",
                       ms |-> [i \in DOMAIN t.ms |-> [key |-> t.ms[i].key, opt |-> t.ms[i].opt, ty |-> Subst(t.ms[i].ty, sub)]],
                       idx |-> [i \in DOMAIN t.idx |-> [kty |-> Subst(t.idx[i].kty, sub), opt |-> t.idx[i].opt, vty |-> Subst(t.idx[i].vty, sub)]]]
    [] OTHER -> t

Builtins == {"Array", "Record", "Partial"}
IsUserRef(t, env) == t.k = "ref" /\ t.n \in DOMAIN env
Expand(t, env) ==    \* a reference to a declared type, instantiated
  LET d == env[t.n] IN
  Subst(d.body, [p \in { d.params[i] : i \in DOMAIN d.params } |->
                   LET i == CHOOSE i \in DOMAIN d.params : d.params[i] = p IN
                   IF i <= Len(t.as) THEN t.as[i] ELSE Kw("unknown")])

\* ------------------------------------------------------------------ values
Keys(j) == { j.v[i][1] : i \in DOMAIN j.v }
Get(j, key) == LET i == CHOOSE i \in DOMAIN j.v : j.v[i][1] = key IN j.v[i][2]

IsNumericString(s) == FALSE      \* refined by the harness: keys of number-keyed maps are tagged (see KeyIn)

(***************************************************************************)
(* Disjunctive normal form of object-like types: a sequence of SHAPES.     *)
(* A shape is [obj |-> TRUE, ms, idx] (members of all intersected object   *)
(* parts, concatenated) or [obj |-> FALSE, ty] (anything that is not an    *)
(* object type), or the empty intersection of an object with a non-object, *)
(* which has no inhabitants and is dropped.                                *)
(***************************************************************************)
ObjShape(ms, idx) == [obj |-> TRUE, ms |-> ms, idx |-> idx, ty |-> Never]
NonObj(t) == [obj |-> FALSE, ms |-> <<>>, idx |-> <<>>, ty |-> t]

RECURSIVE Shapes(_, _, _)
RECURSIVE CrossMerge(_, _)
RECURSIVE FlatShapes(_, _, _)

\* all pairwise merges of two shape lists
MergeTwo(a, b) ==
  IF a.obj /\ b.obj THEN <<ObjShape(a.ms \o b.ms, a.idx \o b.idx)>>
  ELSE IF ~a.obj /\ a.ty.k = "kw" /\ a.ty.v \in {"any", "unknown"} THEN <<b>>
  ELSE IF ~b.obj /\ b.ty.k = "kw" /\ b.ty.v \in {"any", "unknown"} THEN <<a>>
  ELSE IF ~a.obj /\ ~b.obj /\ a.ty = b.ty THEN <<a>>
  ELSE <<>>                                                    \* object & non-object, or two different non-objects: empty

CrossMerge(A, B) ==
  IF A = <<>> THEN <<>>
  ELSE (LET RECURSIVE Row(_)
            Row(bs) == IF bs = <<>> THEN <<>> ELSE MergeTwo(A[1], bs[1]) \o Row(Tail(bs))
        IN Row(B)) \o CrossMerge(Tail(A), B)

FlatShapes(ts, env, fuel) == IF ts = <<>> THEN <<>> ELSE Shapes(ts[1], env, fuel) \o FlatShapes(Tail(ts), env, fuel)

Shapes(t, env, fuel) ==
  IF fuel = 0 THEN <<NonObj(t)>>
  ELSE
  CASE t.k = "obj" -> <<ObjShape(t.ms, t.idx)>>
    [] t.k = "union" -> FlatShapes(t.ts, env, fuel)
    [] t.k = "inter" ->
         LET RECURSIVE Fold(_, _)
             Fold(acc, rest) == IF rest = <<>> THEN acc ELSE Fold(CrossMerge(acc, Shapes(rest[1], env, fuel)), Tail(rest))
         IN Fold(Shapes(t.ts[1], env, fuel), Tail(t.ts))
    [] t.k = "ref" /\ IsUserRef(t, env) -> Shapes(Expand(t, env), env, fuel - 1)
    [] t.k = "ref" /\ t.n = "Record" /\ Len(t.as) = 2 ->
         <<ObjShape(<<>>, <<[kty |-> t.as[1], opt |-> FALSE, vty |-> t.as[2]]>>)>>
    [] OTHER -> <<NonObj(t)>>

(***************************************************************************)
(* Member                                                                  *)
(***************************************************************************)
RECURSIVE Member(_, _, _, _)
RECURSIVE KeyIn(_, _, _, _)

\* does the string `key` inhabit the key type kt of a mapped type / Record ?
\* JSON object keys are strings: number / bigint keys are numeric strings, boolean keys "true"/"false".
\* The harness marks such keys: a key <<"#num", n>> is written as the string "#num:<n>" etc.
NumericKeys == {"#num"}
KeyIn(key, kt, env, fuel) ==
  IF fuel = 0 THEN FALSE ELSE
  CASE kt.k = "kw" /\ kt.v = "string" -> TRUE
    [] kt.k = "kw" /\ kt.v \in {"number", "bigint"} -> key.num
    [] kt.k = "kw" /\ kt.v = "boolean" -> key.s \in {"true", "false"}
    [] kt.k = "kw" /\ kt.v \in {"any", "unknown"} -> TRUE
    [] kt.k = "lit" -> key.s = kt.v
    [] kt.k = "union" -> \E i \in DOMAIN kt.ts : KeyIn(key, kt.ts[i], env, fuel)
    [] kt.k = "ref" /\ IsUserRef(kt, env) -> KeyIn(key, Expand(kt, env), env, fuel - 1)
    [] OTHER -> FALSE

KwMember(j, v) ==
  CASE v = "number" -> j.k \in {"int", "float"}
    [] v = "bigint" -> j.k = "int"
    [] v = "string" -> j.k = "str"
    [] v = "boolean" -> j.k = "bool"
    [] v = "null" -> j.k = "null"
    [] v \in {"any", "unknown"} -> TRUE
    [] OTHER -> FALSE                               \* never, undefined, void: no JSON value

\* the key record of a JSON object key (s: the text, num: it is the decimal form of a number)
KeyRec(j, i) == [s |-> j.v[i][1], num |-> j.v[i][3]]

ShapeMatch(j, sh, env, fuel) ==
  IF ~sh.obj THEN Member(j, sh.ty, env, fuel - 1)
  ELSE
  /\ j.k = "obj"
  \* every required member is present
  /\ \A m \in DOMAIN sh.ms : sh.ms[m].opt \/ sh.ms[m].key \in Keys(j)
  \* every key of the value is declared, and satisfies every declaration of it
  /\ \A i \in DOMAIN j.v :
        LET key == j.v[i][1] val == j.v[i][2]
            decl == { m \in DOMAIN sh.ms : sh.ms[m].key = key }
            sigs == { x \in DOMAIN sh.idx : KeyIn(KeyRec(j, i), sh.idx[x].kty, env, fuel) } IN
        /\ decl # {} \/ sigs # {}
        /\ \A m \in decl : Member(val, sh.ms[m].ty, env, fuel - 1)
        /\ decl = {} => \A x \in sigs : Member(val, sh.idx[x].vty, env, fuel - 1)

Member(j, t, env, fuel) ==
  IF fuel = 0 THEN FALSE ELSE
  CASE t.k = "kw"    -> KwMember(j, t.v)
    [] t.k = "lit"   -> j.k = "str" /\ j.v = t.v
    [] t.k = "array" -> j.k = "arr" /\ \A i \in DOMAIN j.v : Member(j.v[i], t.e, env, fuel - 1)
    [] t.k = "tuple" -> j.k = "arr" /\ Len(j.v) = Len(t.es) /\ \A i \in DOMAIN j.v : Member(j.v[i], t.es[i], env, fuel - 1)
    [] t.k = "ref" /\ t.n = "Array" /\ Len(t.as) = 1 /\ ~IsUserRef(t, env) ->
         j.k = "arr" /\ \A i \in DOMAIN j.v : Member(j.v[i], t.as[1], env, fuel - 1)
    [] t.k \in {"obj", "inter", "union", "ref"} ->
         LET S == Shapes(t, env, fuel) IN \E n \in DOMAIN S : ShapeMatch(j, S[n], env, fuel)
    [] OTHER -> FALSE

Fuel == 12
Inhabits(j, t, env) == Member(j, t, env, Fuel)

(***************************************************************************)
(* Names used by a type (for C03 / C07): references that are not bound     *)
(* parameters and not TypeScript built-ins.                                *)
(***************************************************************************)
RECURSIVE FreeNames(_, _)
UnionAll(S) == UNION S
FreeNames(t, bound) ==
  CASE t.k = "ref" -> (IF t.n \in bound \cup Builtins THEN {} ELSE {t.n})
                       \cup UNION { FreeNames(t.as[i], bound) : i \in DOMAIN t.as }
    [] t.k = "array" -> FreeNames(t.e, bound)
    [] t.k = "tuple" -> UNION { FreeNames(t.es[i], bound) : i \in DOMAIN t.es }
    [] t.k \in {"union", "inter"} -> UNION { FreeNames(t.ts[i], bound) : i \in DOMAIN t.ts }
    [] t.k = "obj" -> UNION { FreeNames(t.ms[i].ty, bound) : i \in DOMAIN t.ms }
                      \cup UNION { FreeNames(t.idx[i].kty, bound) \cup FreeNames(t.idx[i].vty, bound) : i \in DOMAIN t.idx }
    [] OTHER -> {}
=============================================================================
