---------------------------- MODULE MC_ExportHist ----------------------------
(***************************************************************************)
(* PREDICT for sequential histories (C05, C06, C11, C17): every sequence   *)
(* of calls (and fault steps) of length <= MaxLen over the alphabet        *)
(* U.calls.  Every reachable state is quiescent, so the state properties   *)
(* of ExportAbs are plain invariants; each maximal history is emitted with *)
(* the predicted results.                                                  *)
(***************************************************************************)
EXTENDS ExportAbs

CONSTANT MaxLen
MaxLenEnv == U.maxlen

VARIABLES S, hist, rets
vars == <<S, hist, rets>>

InitFs == LET RECURSIVE Put(_, _)
              Put(s, i) == IF i > Len(U.init_files) THEN s
                           ELSE Put(PutFile(s, U.init_files[i].path, U.init_files[i].content), i + 1)
          IN Put(InitState({1}), 1)

Init == S = InitFs /\ hist = <<>> /\ rets = <<>>

\* a step of a history: a call, or an environment step (put / remove an obstacle)
Apply(s, st) ==
  CASE st.op = "call" -> RunCall(s, 1, st)
    [] st.op = "putdir" -> PutDir(s, st.path)
    [] st.op = "putfile" -> PutFile(s, st.path, st.content)
    [] st.op = "rm" -> RemovePath(s, st.path)
    [] st.op = "swapout" -> SwapOut(s, st.path)
    [] st.op = "swapin" -> SwapIn(s, st.path)
    [] st.op = "restart" -> Restart(s)

\* U.follow[i] = the set of step indices allowed after step i (0 = at the start); the generator of
\* the alphabet uses it to place an obstacle, the failing call, the removal and the retry in order
AllowedSeq == IF hist = <<>> THEN U.follow0 ELSE U.follow[hist[Len(hist)]]
Allowed == { AllowedSeq[k] : k \in DOMAIN AllowedSeq }

\* an obstacle is only put where it destroys nothing: no file or directory at or below its path
PathFree(s, p) == ~\E x \in DOMAIN s.files \cup s.dirs : Len(x) >= Len(p) /\ SubSeq(x, 1, Len(p)) = p

Do(i) == /\ Len(hist) < MaxLen
         /\ U.calls[i].op \in {"putdir", "putfile"} => PathFree(S, U.calls[i].path)
         /\ U.calls[i].op = "swapout" => HasFile(S, U.calls[i].path)      \* only a file that exists is moved aside
         /\ LET s2 == Apply(S, U.calls[i]) IN
            /\ S' = s2
            /\ rets' = Append(rets, IF U.calls[i].op = "call" THEN s2.thr[1].ret ELSE "Fs")
         /\ hist' = Append(hist, i)

Next == \E i \in DOMAIN U.calls : i \in Allowed /\ Do(i)
Spec == Init /\ [][Next]_vars

\* ---- model verdicts (every reachable state is quiescent)
Inv_C05_C06 == C05_C06_State(S)
Inv_C17     == C17_State(S)
Inv_C11     == hist # <<>> /\ U.calls[hist[Len(hist)]].op = "call" /\ rets[Len(rets)] = "Ok"
               => CallDone(S, U.calls[hist[Len(hist)]])
\* the same verdicts travelling with the case instead of stopping TLC (domains with recorded findings)
ModelVerdict == [c0506 |-> Inv_C05_C06, c17 |-> Inv_C17, c11 |-> Inv_C11]
Report == (Inv_C05_C06 /\ Inv_C17 /\ Inv_C11) \/ PrintT(<<"MBAD", ToJson([hist |-> hist, verdict |-> ModelVerdict])>>)

\* ---- cases
FilesOut == LET ps == SetToSeq(DOMAIN S.files) IN
            [i \in DOMAIN ps |-> [path |-> ps[i], imports |-> S.files[ps[i]].imports,
                                  blocks |-> BlockIds(S.files[ps[i]].blocks)]]
Maximal == Len(hist) = MaxLen \/ \A i \in DOMAIN U.calls : i \notin Allowed
Emit == (hist # <<>> /\ Maximal) => PrintT(<<"CASE", ToJson([hist |-> hist, rets |-> rets, files |-> FilesOut])>>)
=============================================================================
