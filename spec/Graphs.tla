------------------------------- MODULE Graphs -------------------------------
(***************************************************************************)
(* The generator of dependency graphs for C03 / C11 / C08(end-to-end):     *)
(* a case is (edge kind, placement of the dependency, placement of the     *)
(* root, spelling of the export directory).  Slices: every edge kind at    *)
(* the default placement; every placement combination for the edge kinds   *)
(* listed in Cfg.placed.                                                   *)
(***************************************************************************)
EXTENDS Naturals, Sequences, TLC, Json, IOUtils
Cfg == JsonDeserialize(IOEnv.VERIF_CFG)
S(seq) == { seq[i] : i \in DOMAIN seq }
VARIABLES edge, dplace, rplace, dirsp
vars == <<edge, dplace, rplace, dirsp>>
Init == /\ edge \in S(Cfg.edges) /\ dplace \in S(Cfg.dplaces) /\ rplace \in S(Cfg.rplaces) /\ dirsp \in S(Cfg.dirs)
        /\ (edge \in S(Cfg.placed) \/ (dplace = Cfg.dplaces[1] /\ rplace = Cfg.rplaces[1] /\ dirsp = Cfg.dirs[1]))
Next == UNCHANGED vars
Spec == Init /\ [][Next]_vars
Emit == PrintT(<<"CASE", ToJson([edge |-> edge, dplace |-> dplace, rplace |-> rplace, dir |-> dirsp])>>)
=============================================================================
