---------------------------- MODULE Trace_Export ----------------------------
(***************************************************************************)
(* ADJUDICATE sequential export histories.  One record = one history as    *)
(* replayed through the real entry points: for every step the call, what   *)
(* it returned, and the directory tree afterwards.  The abstract           *)
(* specification (ExportAbs: which declarations have been exported where)  *)
(* is stepped along the observed history - its only nondeterminism, how    *)
(* much of a FAILED call took effect, is resolved from the observation -   *)
(* and the properties are evaluated on the real trees:                     *)
(*   C17v  failures are values (no panic, no poisoned lock), and a call    *)
(*         fails exactly when something is in its way                      *)
(*   C11r  an Ok call leaves every type of its closure at its location     *)
(*   C11x  a call changes nothing but the locations of its closure         *)
(*   C05w  every exported-to file is notice + canonical imports + each     *)
(*         declaration intact, once, in name order, newline-terminated     *)
(*   C06l  a declaration once exported is never lost                       *)
(*   C03i  after an Ok export with dependencies no file of the closure     *)
(*         imports from a file that does not exist                         *)
(* Histories are independent, so each record is one initial state.         *)
(***************************************************************************)
EXTENDS ExportAbs

Rec     == ndJsonDeserialize(IOEnv.VERIF_TRACE)
Blobs   == JsonDeserialize(IOEnv.VERIF_BLOBS)     \* blob id -> [ok, notice, nl_end, imports, blocks (ids)]
PathTab == JsonDeserialize(IOEnv.VERIF_PATHS)     \* path string -> components below the root
Trees   == JsonDeserialize(IOEnv.VERIF_TREES)     \* tree id -> sequence of [path |-> string, blob |-> string]

VARIABLE i
\* (records are judged in successor states, i.e. by TLC's worker threads, whose stack size is configurable)
Init == i = 0
Next == i = 0 /\ i' \in DOMAIN Rec
Spec == Init /\ [][Next]_i

H == Rec[i]

\* a step of the history: the step of the alphabet it instantiates (U.calls) plus what was observed
StepAt(j) == LET o == H.steps[j] c == U.calls[o.idx] IN
  IF c.op = "call"
  THEN [op |-> "call", entry |-> c.entry, ty |-> c.ty, dir |-> c.dir, ret |-> o.ret, poisoned |-> o.poisoned]
  ELSE [op |-> c.op, path |-> c.path, ret |-> o.ret, poisoned |-> o.poisoned]

\* ---- the observed tree after step j (0 = initial): a sequence of [path |-> string, blob |-> string]
Tree(j) == Trees[IF j = 0 THEN H.init_tree ELSE H.steps[j].tree]
PathsOf(tr) == { PathTab[tr[k].path] : k \in DOMAIN tr }
BlobAt(tr, p) == LET k == CHOOSE k \in DOMAIN tr : PathTab[tr[k].path] = p IN tr[k].blob
IsDirAt(tr, p)  == p \in PathsOf(tr) /\ BlobAt(tr, p) = "<dir>"
IsFileAt(tr, p) == p \in PathsOf(tr) /\ BlobAt(tr, p) # "<dir>"
Changed(tr1, tr2) == { p \in PathsOf(tr1) \cup PathsOf(tr2) :
                         \/ p \notin PathsOf(tr1) \/ p \notin PathsOf(tr2)
                         \/ BlobAt(tr1, p) # BlobAt(tr2, p) }

\* ---- ExportAbs along the observation
\* (a type whose file cannot be rendered - U.decls has no declaration for it - is judged by Blocked, not by content)
Pairs(c) == { <<Loc(c.dir, n), T(n).ident>> : n \in { n \in Closure(c) : Exportable(n) /\ ~IsErr(Loc(c.dir, n)) /\ T(n).ident \in DOMAIN U.decls } }
Targets(c) == { pr[1] : pr \in Pairs(c) }

\* a declaration is visibly in a file if all its blocks occur there, contiguously
InFile(blob, id) == blob.ok /\ Positions(blob.blocks, BlockIds(DeclOfIdent(id).blocks)) # {}

\* is something in the way of call c, given the tree before it?
Blocked(c, tr) ==
  \/ ~Exportable(c.ty)
  \/ \E n \in Closure(c) :
        \/ IsErr(Loc(c.dir, n))                                   \* climbs above the root
        \/ ~T(n).renderOk                                         \* a dependency's location is not expressible
        \/ IsDirAt(tr, Loc(c.dir, n))                             \* the target is a directory
        \/ \E q \in DirPrefixes(Front(Loc(c.dir, n))) : IsFileAt(tr, q)   \* a parent is a regular file

\* done: set of <<location, ident>>
RECURSIVE Walk(_, _, _)
Walk(j, done, bad) ==
  IF j > Len(H.steps) THEN [done |-> done, bad |-> bad]
  ELSE
  LET st   == StepAt(j)
      before == Tree(j - 1)
      after  == Tree(j)
  IN
  IF st.op = "restart" THEN Walk(j + 1, {}, bad)            \* a new process: nothing has been exported yet
  ELSE IF st.op # "call" THEN Walk(j + 1, done, bad)
  ELSE
  LET c == st
      ok == st.ret = "Ok"
      pairs == Pairs(c)
      targets == { pr[1] : pr \in pairs }
      took == IF ok THEN pairs
              ELSE { pr \in pairs : IsFileAt(after, pr[1]) /\ InFile(Blobs[BlobAt(after, pr[1])], pr[2]) }
      done2 == done \cup took
      hidden == { p \in { pr[1] : pr \in done2 } : IsFileAt(after, Aside(p)) }     \* moved aside by the environment
      paths2 == { pr[1] : pr \in done2 } \ hidden
      allowed == targets \cup UNION { DirPrefixes(Front(p)) : p \in targets }
      b1 == IF st.ret = "Panic" \/ st.poisoned THEN <<[step |-> j, tag |-> "C17v_panic"]>> ELSE <<>>
      b2 == IF st.ret # "Panic" /\ (ok = Blocked(c, before))
            THEN <<[step |-> j, tag |-> IF ok THEN "C17v_ok_but_blocked" ELSE "C17v_err_but_free"]>> ELSE <<>>
      b3 == IF ok /\ \E pr \in pairs : ~IsFileAt(after, pr[1])
            THEN <<[step |-> j, tag |-> "C11r_missing_file"]>>
            ELSE IF ok /\ \E pr \in pairs : ~InFile(Blobs[BlobAt(after, pr[1])], pr[2])
            THEN <<[step |-> j, tag |-> "C11r_missing_decl"]>> ELSE <<>>
      b4 == IF Changed(before, after) \subseteq allowed THEN <<>>
            ELSE <<[step |-> j, tag |-> "C11x_touched_other"]>>
      b5 == IF \A p \in paths2 :
                 /\ IsFileAt(after, p)
                 /\ LET blob == Blobs[BlobAt(after, p)]
                        ds == SetToSeq({ DeclOfIdent(id) : id \in IdentsAt(done2, p) }) IN
                    /\ blob.ok /\ blob.notice /\ blob.nl_end
                    /\ WellMerged([imports |-> blob.imports, blocks |-> [k \in DOMAIN blob.blocks |-> [id |-> blob.blocks[k]]]], ds)
            THEN <<>> ELSE <<[step |-> j, tag |-> IF \A pr \in { pr \in done : pr[1] \notin hidden } : IsFileAt(after, pr[1]) /\ InFile(Blobs[BlobAt(after, pr[1])], pr[2])
                                                      THEN "C05w_malformed" ELSE "C06l_lost"]>>
      \* C03 along histories: after an Ok export WITH dependencies, every import of every file of the closure names a
      \* file that exists (whatever was exported before, by whichever entry point)
      \* (only the import lines that the declarations of THIS closure need: a type exported earlier without its
      \* dependencies may share the file)
      Needs(p, spec) == \E n \in Closure(c) : Exportable(n) /\ ~IsErr(Loc(c.dir, n)) /\ Loc(c.dir, n) = p /\
                            \E m \in DOMAIN T(n).rendered.imports : T(n).rendered.imports[m].spec = spec
      b6 == IF ok /\ c.entry # "export" /\
               \E pr \in pairs : IsFileAt(after, pr[1]) /\ Blobs[BlobAt(after, pr[1])].ok /\
                   LET blob == Blobs[BlobAt(after, pr[1])] IN
                   \E k \in DOMAIN blob.imports :
                       /\ Needs(pr[1], blob.imports[k].spec)
                       /\ LET tgt == ResolveX(Front(pr[1]), blob.import_chars[k], FALSE) IN IsErr(tgt) \/ ~IsFileAt(after, tgt)
            THEN <<[step |-> j, tag |-> "C03i_dangling_import"]>> ELSE <<>>
      \* "the union of the NEEDED imports": a file never imports from itself
      b7 == IF \E p \in paths2 : IsFileAt(after, p) /\ Blobs[BlobAt(after, p)].ok /\
                   LET blob == Blobs[BlobAt(after, p)] IN
                   \E k \in DOMAIN blob.imports : ResolveX(Front(p), blob.import_chars[k], FALSE) = p
            THEN <<[step |-> j, tag |-> "C05s_self_import"]>> ELSE <<>>
  IN Walk(j + 1, done2, bad \o b1 \o b2 \o b3 \o b4 \o b5 \o b6 \o b7)

Result == Walk(1, {}, <<>>)

\* ---- conformance with the step-level specification (prediction), for the drift statistics
InitS == LET RECURSIVE Put(_, _)
             Put(s, k) == IF k > Len(U.init_files) THEN s
                          ELSE Put(PutFile(s, U.init_files[k].path, U.init_files[k].content), k + 1)
         IN IF H.init = "stale" THEN Put(InitState({1}), 1) ELSE InitState({1})

RECURSIVE ModelRun(_, _)
ModelRun(s, j) == IF j > Len(H.steps) THEN s
                  ELSE LET st == U.calls[H.steps[j].idx] IN
                       ModelRun(CASE st.op = "call" -> RunCall(s, 1, st)
                                  [] st.op = "putdir" -> PutDir(s, st.path)
                                  [] st.op = "putfile" -> PutFile(s, st.path, NoFile)
                                  [] st.op = "rm" -> RemovePath(s, st.path)
                                  [] st.op = "swapout" -> SwapOut(s, st.path)
                                  [] st.op = "swapin" -> SwapIn(s, st.path)
                                  [] st.op = "restart" -> Restart(s), j + 1)

PredEqual ==
  LET s  == ModelRun(InitS, 1)
      tr == Tree(Len(H.steps)) IN
  \A p \in RegPaths(s.reg) :
      /\ IsFileAt(tr, p)
      /\ LET blob == Blobs[BlobAt(tr, p)] IN
         blob.ok /\ blob.blocks = BlockIds(s.files[p].blocks) /\ blob.imports = s.files[p].imports

DoneOut(done) == LET ds == SetToSeq(done) IN [k \in DOMAIN ds |-> [path |-> ds[k][1], ident |-> ds[k][2]]]

Judge == i = 0 \/ LET r == Result IN
  /\ PrintT(<<"OUT", ToJson([hid |-> H.hid, bad |-> r.bad, done |-> DoneOut(r.done), pred_equal |-> PredEqual])>>)
=============================================================================
