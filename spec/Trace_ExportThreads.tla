------------------------- MODULE Trace_ExportThreads -------------------------
(***************************************************************************)
(* Trace validation of CONCURRENT exports against Export.tla.              *)
(* One record = one run: the plans of the threads, the events recorded at  *)
(* the hook points of export_and_merge (in the order of a global sequence  *)
(* number taken inside the callback), Call/Return events of the harness,   *)
(* and the final tree.  An event named after a hook point is the step the  *)
(* thread takes from the program counter of the same name; the steps       *)
(* without a hook (Enter, IntoPath, Render, Mkdirs, Next, Lookup) are      *)
(* silent and inferred.  The event "Lock" is the step that acquires the    *)
(* registry mutex: it is only enabled when the model's lock is free, so a  *)
(* run in which two threads are inside the section at once is not a        *)
(* behaviour of the specification.                                         *)
(***************************************************************************)
EXTENDS ExportAbs

Rec     == ndJsonDeserialize(IOEnv.VERIF_TRACE)
Blobs   == JsonDeserialize(IOEnv.VERIF_BLOBS)
PathTab == JsonDeserialize(IOEnv.VERIF_PATHS)
Trees   == JsonDeserialize(IOEnv.VERIF_TREES)

VARIABLE i
\* (records are judged in successor states, i.e. by TLC's worker threads, whose stack size is configurable)
Init == i = 0
Next == i = 0 /\ i' \in DOMAIN Rec
Spec == Init /\ [][Next]_i

R == Rec[i]
Threads == DOMAIN R.plans

Silent == {"Enter", "IntoPath", "Render", "Mkdirs", "Next", "Lookup"}

\* advance thread t over silent steps (deterministic: the visit order is the measured one) until
\* its pc is `want` (or it cannot move silently any more)
RECURSIVE Advance(_, _, _, _)
Advance(s, t, want, fuel) ==
  IF fuel = 0 \/ s.thr[t].pc = want \/ s.thr[t].pc \notin Silent THEN s
  ELSE Advance(Step(s, t, 1), t, want, fuel - 1)

Mismatch(s, why, k) == [s EXCEPT !.poisoned = TRUE, !.lock = 0 - k]   \* sticky marker: see Bad below
IsMismatch(s) == s.lock < 0

\* one event
Ev(s, e, k) ==
  IF IsMismatch(s) THEN s
  ELSE LET t == e.thread IN
  CASE e.ev = "Call" ->
         IF s.thr[t].pc # "idle" THEN Mismatch(s, "call while busy", k)
         ELSE StartCall(s, t, U.calls[R.plans[t][e.k]])
    [] e.ev = "Return" ->
         LET s2 == Advance(s, t, "Return", 200) IN
         IF s2.thr[t].pc # "Return" \/ s2.thr[t].ret # e.ret THEN Mismatch(s, "return", k)
         ELSE Step(s2, t, 1)
    [] e.ev = "Lock_wait" ->
         LET s2 == Advance(s, t, "LockWait", 200) IN
         IF s2.thr[t].pc # "LockWait" THEN Mismatch(s, "lock_wait", k) ELSE s2
    [] e.ev = "Lock" ->
         LET s2 == Advance(s, t, "LockWait", 200) IN
         IF s2.thr[t].pc # "LockWait" \/ s2.lock # 0 \/ T(s2.thr[t].cur).ident # e.ident
         THEN Mismatch(s, "lock", k) ELSE Step(s2, t, 1)
    [] OTHER ->     \* Create_write, Reg_insert_new, Skip_present, Open_read, Merge_seek_write, Reg_insert, Unlock
         LET s2 == Advance(s, t, e.ev, 5)
             pcname == IF e.ev = "Skip_present" THEN "Unlock" ELSE e.ev IN
         IF e.ev = "Skip_present"
         THEN (IF s2.thr[t].pc = "Unlock" /\ s2.lock = t THEN s2 ELSE Mismatch(s, "skip", k))
         ELSE IF s2.thr[t].pc # pcname \/ s2.lock # t THEN Mismatch(s, e.ev, k)
         ELSE Step(s2, t, 1)

RECURSIVE Fold(_, _)
Fold(s, k) == IF k > Len(R.events) THEN s ELSE Fold(Ev(s, R.events[k], k), k + 1)

Final == Fold(InitState(Threads), 1)

\* ---- the real final tree
Tree == Trees[R.tree]
PathsOf(tr) == { PathTab[tr[k].path] : k \in DOMAIN tr }
BlobAt(tr, p) == LET k == CHOOSE k \in DOMAIN tr : PathTab[tr[k].path] = p IN tr[k].blob
IsFileAt(tr, p) == p \in PathsOf(tr) /\ BlobAt(tr, p) # "<dir>"

CallPairs(c) == { <<Loc(c.dir, n), T(n).ident>> : n \in Closure(c) }
AllPairs == UNION { UNION { CallPairs(U.calls[R.plans[t][k]]) : k \in DOMAIN R.plans[t] } : t \in Threads }
\* (plans of concurrent runs only contain calls that succeed)

WellFormedTree ==
  \A p \in { pr[1] : pr \in AllPairs } :
     /\ IsFileAt(Tree, p)
     /\ LET blob == Blobs[BlobAt(Tree, p)]
            ds == SetToSeq({ DeclOfIdent(id) : id \in IdentsAt(AllPairs, p) }) IN
        /\ blob.ok /\ blob.notice /\ blob.nl_end
        /\ WellMerged([imports |-> blob.imports, blocks |-> [k \in DOMAIN blob.blocks |-> [id |-> blob.blocks[k]]]], ds)

PredEqual(s) ==
  \A p \in RegPaths(s.reg) :
      /\ IsFileAt(Tree, p)
      /\ LET blob == Blobs[BlobAt(Tree, p)] IN
         blob.ok /\ blob.blocks = BlockIds(s.files[p].blocks) /\ blob.imports = s.files[p].imports

Judge == i = 0 \/ LET s == Final IN
  PrintT(<<"OUT", ToJson([rid |-> R.rid,
                          accepted |-> ~IsMismatch(s),
                          rejected_at |-> IF IsMismatch(s) THEN 0 - s.lock ELSE 0,
                          quiescent |-> (~IsMismatch(s)) /\ Quiescent(s) /\ s.lock = 0,
                          wellformed |-> WellFormedTree /\ ~R.poisoned,
                          pred_equal |-> (~IsMismatch(s)) /\ PredEqual(s)])>>)
=============================================================================
