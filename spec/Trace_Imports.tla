---------------------------- MODULE Trace_Imports ----------------------------
(***************************************************************************)
(* ADJUDICATE for C03 (and the end-to-end half of C08, the location half   *)
(* of C11): a record is the directory tree written by one real             *)
(* export_all_to(dir) of a root type, every file parsed:                   *)
(*   files: <<[path (components below the export dir's parent, as          *)
(*            character sequences), imports <<[names, spec (characters)]>>,*)
(*            decls <<[name, params <<[name, default]>>, body]>>]>>        *)
(*   esm:   import-esm on/off                                              *)
(* Judged per file with FreeNames (TsTypes.tla) and Resolve (Paths.tla):   *)
(*   every used name that is not declared in the file, not a bound         *)
(*   parameter and not a built-in is imported exactly once; nothing else   *)
(*   is imported; every specifier is well-formed and resolves to a written *)
(*   file that declares the name; no file imports from itself.             *)
(***************************************************************************)
EXTENDS TsTypes, Paths, Json, IOUtils
Rec == ndJsonDeserialize(IOEnv.VERIF_TRACE)
VARIABLE i
Init == i = 0
Next == i = 0 /\ i' \in DOMAIN Rec
Spec == Init /\ [][Next]_i
R == Rec[i]

Files == R.files
DeclNames(f) == { f.decls[k].name : k \in DOMAIN f.decls }
ParamNames(d) == { d.params[k].name : k \in DOMAIN d.params }
DefaultNames(d) == UNION { IF d.params[k].default.k = "none" THEN {} ELSE FreeNames(d.params[k].default, ParamNames(d)) : k \in DOMAIN d.params }
Used(f) == UNION { FreeNames(f.decls[k].body, ParamNames(f.decls[k])) \cup DefaultNames(f.decls[k]) : k \in DOMAIN f.decls } \ DeclNames(f)

RECURSIVE Flatten(_)
Flatten(ss) == IF ss = <<>> THEN <<>> ELSE ss[1] \o Flatten(Tail(ss))
ImportedSeq(f) == Flatten([k \in DOMAIN f.imports |-> f.imports[k].names])
Imported(f) == { ImportedSeq(f)[k] : k \in DOMAIN ImportedSeq(f) }

FileAt(p) == { n \in DOMAIN Files : Files[n].path = p }

ImportOK(f, imp) ==
  /\ WellFormedSpec(imp.spec)
  /\ (R.esm => EndsWith(imp.spec, JsExt))
  /\ LET target == ResolveX(Front(f.path), imp.spec, R.esm) IN
     /\ ~IsErr(target)
     /\ target # f.path                                       \* never from itself
     /\ \E n \in FileAt(target) : \A k \in DOMAIN imp.names : imp.names[k] \in DeclNames(Files[n])

FileOK(f) ==
  /\ Imported(f) = Used(f)                                    \* exactly the names used
  /\ Len(ImportedSeq(f)) = Cardinality(Imported(f))           \* each once
  /\ \A k \in DOMAIN f.imports : ImportOK(f, f.imports[k])

BadFiles == { n \in DOMAIN Files : ~FileOK(Files[n]) }
\* C08 end to end: only the specifiers (well-formed, resolve to the file of the imported names)
BadSpecFiles == { n \in DOMAIN Files : \E k \in DOMAIN Files[n].imports : ~ImportOK(Files[n], Files[n].imports[k]) }
Judge == i = 0 \/
  /\ (BadFiles = {} \/ PrintT(<<"BAD", ToJson([rec |-> i, files |-> BadFiles])>>))
  /\ (BadSpecFiles = {} \/ PrintT(<<"BADSPEC", ToJson([rec |-> i, files |-> BadSpecFiles])>>))
=============================================================================
