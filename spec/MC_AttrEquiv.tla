---------------------------- MODULE MC_AttrEquiv ----------------------------
(***************************************************************************)
(* PREDICT for C10: pairs (A, B) of attribute-list spellings of one item   *)
(* that the property says must yield identical bindings:                   *)
(*  equiv    #[serde(K)]            vs #[ts(K)]                            *)
(*  split    #[serde(K, K2)]        vs #[serde(K)] #[serde(K2)]            *)
(*  tswins   #[ts(K=v1)] #[serde(K=v2)] (both orders) vs #[ts(K=v1)]       *)
(*  tswins2  #[ts(K=v1)] #[serde(K=v2, K2)] vs #[ts(K=v1)] #[serde(K2)]:   *)
(*           the losing serde list still gives its other key               *)
(*  inert    #[serde(.. J ..)] with an unsupported / unparseable entry J   *)
(*           at every index   vs the list without J                        *)
(*  off      (serde-compat off) #[serde(K)]  vs nothing                    *)
(* for every position and every key supported in both namespaces.          *)
(* Model verdict: the transcription of the parser gives both sides the     *)
(* same effective attributes.                                              *)
(***************************************************************************)
EXTENDS Attrs, Json, IOUtils

Cfg == JsonDeserialize(IOEnv.VERIF_CFG)
\* Cfg.keys[pos]: Seq of [key, flag (BOOLEAN), k2 (companion key or ""), k2flag]
\* Cfg.junk[pos]: Seq of [name, cls]
\* Cfg.ctx[pos]:  Seq of [key, flag]: ts-only attributes the item carries in BOTH spellings (context)
Positions == {"struct", "enum", "variant", "field"}

E(key, val) == [key |-> key, val |-> val, cls |-> "known"]
J(j) == [key |-> j.name, val |-> "flag", cls |-> j.cls]
L(ns, es) == [ns |-> ns, entries |-> es]
Val(k, n) == IF k.flag THEN "flag" ELSE n

InsertAt(s, i, x) == SubSeq(s, 1, i - 1) \o <<x>> \o SubSeq(s, i, Len(s))

VARIABLES pos, class, A, B, info, ctx
vars == <<pos, class, A, B, info, ctx>>

Pairs(p) ==
  LET ks == Cfg.keys[p] js == Cfg.junk[p] IN
  UNION { LET k == ks[n]
              hasK2 == k.k2 # ""
              k2e == E(k.k2, IF k.k2flag THEN "flag" ELSE "v1")
              base1 == <<E(k.key, Val(k, "v1"))>>
              base2 == IF hasK2 THEN <<E(k.key, Val(k, "v1")), k2e>> ELSE base1
          IN
          (IF SerdeCompat THEN
            { [class |-> "equiv", A |-> <<L("serde", base1)>>, B |-> <<L("ts", base1)>>, info |-> k.key] }
            \cup (IF hasK2 THEN { [class |-> "split", A |-> <<L("serde", base2)>>, B |-> <<L("serde", <<base2[1]>>), L("serde", <<base2[2]>>)>>, info |-> k.key] } ELSE {})
            \cup (IF k.flag THEN {} ELSE
                  { [class |-> "tswins", A |-> <<L("ts", base1), L("serde", <<E(k.key, "v2")>>)>>, B |-> <<L("ts", base1)>>, info |-> k.key],
                    [class |-> "tswins", A |-> <<L("serde", <<E(k.key, "v2")>>), L("ts", base1)>>, B |-> <<L("ts", base1)>>, info |-> k.key] }
                  \* the serde list that loses on K still gives its other supported key K2
                  \cup (IF hasK2 THEN
                  { [class |-> "tswins2", A |-> <<L("ts", base1), L("serde", <<E(k.key, "v2"), k2e>>)>>, B |-> <<L("ts", base1), L("serde", <<k2e>>)>>, info |-> k.key],
                    [class |-> "tswins2", A |-> <<L("serde", <<k2e, E(k.key, "v2")>>), L("ts", base1)>>, B |-> <<L("serde", <<k2e>>), L("ts", base1)>>, info |-> k.key],
                    [class |-> "tswins2", A |-> <<L("ts", base1), L("serde", <<E(k.key, "v2")>>), L("serde", <<k2e>>)>>, B |-> <<L("ts", base1), L("ts", <<k2e>>)>>, info |-> k.key] }
                   ELSE {}))
            \cup UNION { { [class |-> "inert", A |-> <<L("serde", InsertAt(es, i, J(js[m])))>>, B |-> <<L("serde", es)>>, info |-> js[m].name]
                           : i \in 1..(Len(es) + 1), m \in DOMAIN js } : es \in {base1, base2} }
           ELSE
            { [class |-> "off", A |-> <<L("serde", base2)>>, B |-> <<>>, info |-> k.key] })
        : n \in DOMAIN ks }

\* the context is a ts list of its own, before or after the lists of the pair; only combinations that
\* assert_validity accepts (the property is about supported attributes that are valid together)
Contexts(p) == { <<"none", <<>> >> } \cup
  UNION { { <<"before", <<L("ts", <<E(c.key, IF c.flag THEN "flag" ELSE "v1")>>)>> >>,
            <<"after",  <<L("ts", <<E(c.key, IF c.flag THEN "flag" ELSE "v1")>>)>> >> } : c \in SeqToSet(Cfg.ctx[p]) }
With(cx, ls) == IF cx[1] = "after" THEN ls \o cx[2] ELSE cx[2] \o ls

Init == /\ pos \in Positions
        /\ \E pr \in Pairs(pos), cx \in Contexts(pos) :
             /\ class = pr.class /\ A = With(cx, pr.A) /\ B = With(cx, pr.B) /\ info = pr.info
             /\ ctx = IF cx[1] = "none" THEN "none" ELSE cx[2][1].entries[1].key
             /\ ~PosInvalid(pos, KeysSet(EffAttrs(pos, A))) /\ ~PosInvalid(pos, KeysSet(EffAttrs(pos, B)))
Next == UNCHANGED vars
Spec == Init /\ [][Next]_vars

\* InsertAt beyond the end is skipped
WellFormed == \A n \in DOMAIN A : A[n].entries # <<>>
Model_C10 == C10_Same(pos, A, B)
Emit == PrintT(<<"CASE", ToJson([pos |-> pos, class |-> class, A |-> A, B |-> B, info |-> info, ctx |-> ctx, pred_same |-> C10_Same(pos, A, B)])>>)
=============================================================================
