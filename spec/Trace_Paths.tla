----------------------------- MODULE Trace_Paths -----------------------------
(***************************************************************************)
(* ADJUDICATE for C08: each record holds a case and what the real          *)
(* import_path returned for it; the property is evaluated on the real      *)
(* result with the operators of Paths.tla.  Cases are independent, so      *)
(* each record is one initial state.                                       *)
(***************************************************************************)
EXTENDS Paths, Json, IOUtils

Cfg  == JsonDeserialize(IOEnv.VERIF_CFG)
Cwd  == P(TRUE, Cfg.cwd)
Esm  == Cfg.esm
Rec  == ndJsonDeserialize(IOEnv.VERIF_TRACE)

VARIABLE i
\* (records are judged in successor states, i.e. by TLC's worker threads, whose stack size is configurable)
Init == i = 0
Next == i = 0 /\ i' \in DOMAIN Rec
Spec == Init /\ [][Next]_i

R     == Rec[i]
FromP == Join(R.base, P(FALSE, R.from))
ToP   == Join(R.base, P(FALSE, R.to))
Real  == [ok |-> R.real.ok, spec |-> R.real.spec]

Holds == C08_Holds(Cwd, FromP, ToP, Esm, Real)
Equal == Real = ModelResult(Cwd, FromP, ToP, Esm)

Judge == i = 0 \/
         /\ (Holds \/ PrintT(<<"BAD", ToJson(i)>>))
         /\ (Equal \/ PrintT(<<"DRIFT", ToJson(i)>>))
=============================================================================
