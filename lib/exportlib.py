"""Shared machinery of the exporter checks (C05, C06, C11, C17; dynamic half of C03):
measure the universe, write the constants of Export.tla, let TLC enumerate histories,
replay them through the real entry points, abstract the observed trees, let TLC adjudicate."""
import hashlib
import json
import os
import shutil
import subprocess
import time

import textabs
import vlib
from vlib import ToolError, log

NWORK = 16


def cs(s):
    """path string -> list of components, each a list of characters"""
    return [list(c) for c in s.strip("/").split("/") if c != ""]


def P(abs_, comps):
    return {"abs": abs_, "cs": comps}


class Universe:
    def __init__(self, esm=False):
        self.esm = esm
        self.target = os.path.join(vlib.BUILD, "target-rt-esm" if esm else "target-rt")
        vlib.build_harness("rt", features=("import-esm",) if esm else (), extra_env={"CARGO_TARGET_DIR": self.target})
        self.rt = os.path.join(self.target, "release", "rt")
        self.sandbox = vlib.shm_dir("exp")
        out = os.path.join(vlib.TMP, "universe-%d.json" % os.getpid())
        # measure in a directory of the same shape as the replay directories
        mdir = os.path.join(self.sandbox, "w0", "c")
        os.makedirs(mdir)
        p = subprocess.run([self.rt, "universe", out], cwd=mdir)
        if p.returncode != 0:
            raise ToolError("rt universe failed")
        self.raw = json.load(open(out))
        os.remove(out)
        shutil.rmtree(os.path.join(self.sandbox, "w0"))
        self.note = self.raw["note"]
        self.tab = textabs.BlockTable()
        real = self.sandbox.strip("/").split("/")
        self.model_sandbox = real[:-1] + ["SB"]
        self.model_root = self.model_sandbox + ["W"]          # <sandbox>/w<k>
        self.model_cwd = self.model_root + ["c"]
        self.types = {}
        names = {t["name"] for t in self.raw["types"]}
        for t in self.raw["types"]:
            rec = {"name": t["name"], "ident": t["ident"] or "", "exportable": t["exportable"],
                   "out": cs(t["out"]) if t["out"] else [], "out_s": t["out"],
                   "visits": [], "renderOk": False,
                   "rendered": {"imports": [], "blocks": []}, "nameCodes": [], "gnameCodes": [], "text": None}
            for v in t["visits"]:
                if v["exportable"]:
                    if v["name"] not in names:
                        raise ToolError("universe: %s visits exportable type %s which is not in the universe" % (t["name"], v["name"]))
                    rec["visits"].append(v["name"])
            if "ok" in t["text"]:
                a = textabs.abstract(t["text"]["ok"], self.note, self.tab, register=True)
                if not a["ok"]:
                    raise ToolError("universe: cannot cut the text of %s: %s" % (t["name"], a["why"]))
                rec["renderOk"] = True
                rec["rendered"] = textabs.tla_file(a)
                rec["text"] = t["text"]["ok"]
                rec["nameCodes"] = textabs.codes(t["ident"])
                g = textabs.declared_gnames(t["text"]["ok"])
                rec["gnameCodes"] = textabs.codes(g[0]) if g else []
                rec["n_blocks"] = len(a["blocks"])
            rec["text_state"] = "ok" if "ok" in t["text"] else ("err" if "err" in t["text"] else "panic")
            self.types[t["name"]] = rec
        # all instantiations of one generic type must render the same text (else the file depends on who comes first)
        by_ident = {}
        self.ident_clash = []
        for r in self.types.values():
            if r["renderOk"]:
                k = (r["ident"], r["out_s"])
                if k in by_ident and by_ident[k]["text"] != r["text"]:
                    self.ident_clash.append((by_ident[k]["name"], r["name"]))
                by_ident.setdefault(k, r)

    # ---- directory spellings: (label, real string with {CWD}, model P record)
    def spellings(self):
        cwd = [list(c) for c in self.model_cwd]
        b = list("bindings")
        return {
            "default": (None, P(False, [["."], b])),                       # env unset -> "./bindings"
            "plain": ("bindings", P(False, [b])),
            "dotslash/": ("./bindings/", P(False, [["."], b])),
            "abs": ("{CWD}/bindings", P(True, cwd + [b])),
            "dotdot": ("x/../bindings", P(False, [["x"], [".", "."], b])),
            "other": ("other", P(False, [list("other")])),
            # the process has changed its working directory to <root>/c2 before the call: relative directories are
            # relative to THAT directory (for the model: the absolute location)
            "cd2": (None, P(True, [list(c) for c in self.model_root] + [list("c2"), b]), "c2"),
            "cd2_plain": ("bindings", P(True, [list(c) for c in self.model_root] + [list("c2"), b]), "c2"),
        }

    def call(self, entry, ty, spelling):
        real, model, *cd = self.spellings()[spelling]
        c = {"op": "call", "entry": entry, "ty": ty, "dir": model, "spelling": spelling, "cwd_s": cd[0] if cd else None}
        if entry == "export_all_to":
            c["dir_s"] = real if real is not None else "./bindings"
            c["env_s"] = None
        else:
            c["dir_s"] = None
            c["env_s"] = real
        return c

    def fs_step(self, op, rel, kind=None):
        """rel: path relative to the cwd of the replay, e.g. 'bindings/shared.ts'"""
        comps = [list(c) for c in self.model_cwd] + cs(rel)
        s = {"op": op, "path": comps, "path_s": "c/" + rel}
        return s

    def restart_step(self):
        """a new process starts (empty registry) on the directory as it is"""
        return {"op": "restart", "path": [], "path_s": ""}

    def tla_types(self):
        keys = ["name", "ident", "exportable", "out", "visits", "renderOk", "rendered", "nameCodes", "gnameCodes"]
        return {t["name"]: {k: t[k] for k in keys} for t in self.types.values()}

    def tla_decls(self):
        d = {}
        for t in self.types.values():
            if t["exportable"] and t["renderOk"]:
                d.setdefault(t["ident"], t["name"])
        return d

    def stale_init(self):
        """stale files at every location of the universe (default directory) + unrelated files"""
        steps = []
        for t in self.types.values():
            if t["exportable"] and not t["out_s"].startswith("../../"):
                # (longer than anything the universe writes: a first write that does not truncate leaves its tail)
                steps.append({"rel": "bindings/" + t["out_s"], "content": "// stale\n\nexport type Stale = { old: true };\n" +
                              "".join("\nexport type Stale%d = { older: %d, padding: \"%s\" };\n" % (k, k, "x" * 60) for k in range(40))})
        steps.append({"rel": "bindings/unrelated.txt", "content": "keep me\n"})
        steps.append({"rel": "bindings/keepdir/inner.ts", "content": "// not ours\n\nexport type Inner = 1;\n"})
        seen, out = set(), []
        for s in steps:
            rel = os.path.normpath(s["rel"])
            if rel not in seen:
                seen.add(rel)
                out.append({"rel": rel, "content": s["content"]})
        return out

    def write_constants(self, path, calls, follow0, follow, init_kind):
        init_files = []
        if init_kind == "stale":
            for s in self.stale_init():
                a = textabs.abstract(s["content"], self.note, self.tab, register=True)
                content = textabs.tla_file(a) if a["ok"] else {"imports": [], "blocks": []}
                init_files.append({"path": [list(c) for c in self.model_cwd] + cs(s["rel"]), "content": content})
        u = {"types": self.tla_types(), "decls": self.tla_decls(), "cwd": [list(c) for c in self.model_cwd],
             "calls": [{k: v for k, v in c.items() if k in ("op", "entry", "ty", "dir", "path", "content")} for c in calls],
             "follow0": follow0, "follow": follow, "init_files": init_files}
        for c in u["calls"]:
            if c["op"] == "putfile":
                c.setdefault("content", {"imports": [], "blocks": []})
        json.dump(u, open(path, "w"))

    def cleanup(self):
        shutil.rmtree(self.sandbox, ignore_errors=True)


def free_alphabet(calls):
    """every step may follow every step"""
    n = len(calls)
    allidx = list(range(1, n + 1))
    return allidx, [allidx for _ in calls]


def replay(u, histories, tag):
    """histories: list of dict(hid, init, steps) in harness format -> (observations by hid, blobs)"""
    hpath = os.path.join(vlib.TMP, "hist-%s.ndjson" % tag)
    vlib.write_ndjson(hpath, histories)
    procs = []
    for k in range(NWORK):
        out = os.path.join(vlib.TMP, "hobs-%s-%d.ndjson" % (tag, k))
        bl = os.path.join(vlib.TMP, "hblob-%s-%d.json" % (tag, k))
        procs.append((subprocess.Popen([u.rt, "history", u.sandbox, hpath, out, bl, str(k), str(NWORK)]), out, bl))
    obs, blobs = {}, {}
    for p, out, bl in procs:
        if p.wait() != 0:
            raise ToolError("rt history worker failed (rc=%s)" % p.returncode)
        for line in open(out):
            o = json.loads(line)
            obs[o["hid"]] = o
            # an environment step that cannot be applied (e.g. moving aside a file that is not there): the code has
            # already left the predicted course; the history is judged up to that step (nothing before it failing to
            # be flagged is a tool error, see run_slice)
            for k_, st in enumerate(o["steps"]):
                if st["ret"].startswith("FsErr"):
                    if k_ == 0:
                        raise ToolError("the harness could not apply the first file-system step of history %s: %s" % (o["hid"], st["ret"]))
                    o["cut"] = st["ret"]
                    o["steps"] = o["steps"][:k_]
                    break
        blobs.update(json.load(open(bl)))
        os.remove(out)
        os.remove(bl)
    os.remove(hpath)
    if len(obs) != len(histories):
        raise ToolError("replayed %d of %d histories" % (len(obs), len(histories)))
    return obs, blobs


def harness_history(u, hid, steps, init_kind):
    """model steps -> what rt history executes"""
    hs = []
    for s in steps:
        if s["op"] == "call":
            hs.append({"op": "call", "entry": s["entry"], "ty": s["ty"], "env": s["env_s"], "dir": s["dir_s"], "cwd": s.get("cwd_s")})
        elif s["op"] == "putdir":
            hs.append({"op": "put", "kind": "dir", "path": s["path_s"]})
        elif s["op"] == "putfile":
            hs.append({"op": "put", "kind": "file", "path": s["path_s"]})
        elif s["op"] == "rm":
            hs.append({"op": "rm", "path": s["path_s"]})
        elif s["op"] == "restart":
            hs.append({"op": "restart"})
        elif s["op"] in ("swapout", "swapin"):
            hs.append({"op": s["op"], "path": s["path_s"], "aside": "c/aside/" + s["path_s"].split("/")[-1]})
    init = []
    if init_kind == "stale":
        for s in u.stale_init():
            init.append({"op": "put", "kind": "file", "path": "c/" + s["rel"], "content": s["content"]})
        init.append({"op": "put", "kind": "dir", "path": "c/bindings/emptydir"})
    return {"hid": hid, "init": init, "steps": hs}


def tree_sha(tree):
    h = hashlib.sha1()
    for p in sorted(tree):
        if tree[p] != "<dir>":
            h.update(("%s=%s;" % (p, tree[p])).encode())
    return h.hexdigest()[:16]


def adjudicate(u, const_path, cases, obs, blobs, init_kind, tag, stats):
    """cases: list of dict(hid, steps(model)) ; returns list of per-history results from TLC"""
    # blob abstractions
    btab = {"<dir>": {"ok": False, "notice": False, "nl_end": False, "imports": [], "import_chars": [], "blocks": []}}
    for bid, text in blobs.items():
        a = textabs.abstract(text, u.note, u.tab, register=False)
        if a["ok"]:
            btab[bid] = {"ok": True, "notice": a["notice"], "nl_end": a["nl_end"],
                         "imports": [{"spec": i["spec"], "names": i["names"]} for i in a["imports"]],
                         "import_chars": [list(i["spec_s"]) for i in a["imports"]],
                         "blocks": [b["id"] for b in a["blocks"]]}
        else:
            btab[bid] = {"ok": False, "notice": False, "nl_end": text.endswith("\n"), "imports": [], "import_chars": [], "blocks": []}
    paths = {}
    trees = {}
    tree_ids = {}

    def tr(tree):
        key = json.dumps(tree, sort_keys=True)
        if key in tree_ids:
            return tree_ids[key]
        out = []
        for p, b in sorted(tree.items()):
            if p not in paths:
                paths[p] = [list(c) for c in u.model_root] + cs(p)
            out.append({"path": p, "blob": b})
        tid = "t%d" % len(trees)
        trees[tid] = out
        tree_ids[key] = tid
        return tid

    recs = []
    for c in cases:
        o = obs[c["hid"]]
        steps = []
        for idx, so in zip(c["hist"], o["steps"]):
            steps.append({"idx": idx, "ret": so["ret"], "poisoned": so["poisoned"], "tree": tr(so["tree"])})
        recs.append({"hid": c["hid"], "init": init_kind, "init_tree": tr(o["init_tree"]), "steps": steps})
    tpath = os.path.join(vlib.TMP, "trace-%s.ndjson" % tag)
    bpath = os.path.join(vlib.TMP, "blobs-%s.json" % tag)
    ppath = os.path.join(vlib.TMP, "paths-%s.json" % tag)
    trpath = os.path.join(vlib.TMP, "trees-%s.json" % tag)
    json.dump(btab, open(bpath, "w"))
    json.dump(paths, open(ppath, "w"))
    # in chunks: the tables a chunk needs stay small (TLC reads them again for every record)
    outs, CH = {}, 3000
    for k in range(0, len(recs), CH):
        part = recs[k:k + CH]
        used = {r["init_tree"] for r in part} | {s["tree"] for r in part for s in r["steps"]}
        json.dump({t: trees[t] for t in used}, open(trpath, "w"))
        vlib.write_ndjson(tpath, part)
        a = vlib.run_tlc("Trace_Export", "Trace_Export.cfg", workers=12, timeout=3000,
                         env={"VERIF_UNIVERSE": const_path, "VERIF_TRACE": tpath, "VERIF_BLOBS": bpath, "VERIF_PATHS": ppath, "VERIF_TREES": trpath},
                         tags=("OUT",), metatag="te-%s-%d" % (tag, k // CH))
        vlib.tlc_must_succeed(a, "Trace_Export " + tag)
        got = {o["hid"]: o for o in a.payloads("OUT")}
        if len(got) != len(part):
            raise ToolError("adjudication judged %d of %d histories" % (len(got), len(part)))
        outs.update(got)
    stats["adjudicated"] = stats.get("adjudicated", 0) + len(recs)
    for f in (tpath, bpath, ppath, trpath):
        os.remove(f)
    return outs
