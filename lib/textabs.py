"""Tokenisation of exported text into the structure Merge.tla talks about.

This is measurement, not judgement: a file is cut exactly where `fn merge` cuts it (header =
everything before the first blank line, then blocks at blank lines); for every block we record
its first word and the words following each occurrence of "export type ".  All verdicts are
computed by TLC from these structures.
"""
import re

DECL_START = "export type "
IMPORT_RE = re.compile(r'^import type \{ (.*) \} from "(.*)";$')


def codes(s):
    return list(s.encode("utf-8"))


class BlockTable:
    """block text -> small integer id (0 is reserved for 'not a known block')."""

    def __init__(self):
        self.ids = {}
        self.texts = [None]

    def id_of(self, text, register):
        if text in self.ids:
            return self.ids[text]
        if not register:
            return 0
        self.ids[text] = len(self.texts)
        self.texts.append(text)
        return self.ids[text]


def block_record(text, tab, register):
    words = text.split()
    first = words[0] if words else ""
    cands = []
    for line in text.split("\n"):       # str::lines(): split at \n (a trailing \r is not expected in generated text)
        if line.startswith(DECL_START):
            rest = line[len(DECL_START):].split()
            cands.append(codes(rest[0]) if rest else [])
    return {"id": tab.id_of(text, register), "first": codes(first), "cands": cands}


def abstract(text, note, tab, register=False):
    """-> dict(ok, notice, imports, blocks, nl_end, raw_header_lines) or dict(ok=False, why)."""
    if "\n\n" not in text:
        return {"ok": False, "why": "no blank line between header and declarations"}
    header, decls = text.split("\n\n", 1)
    lines = header.split("\n")
    notice = (lines[0] + "\n") == note
    imports = []
    for ln in lines[1:]:
        m = IMPORT_RE.match(ln)
        if not m:
            return {"ok": False, "why": "header line is not an import: %r" % ln[:80]}
        imports.append({"spec": codes(m.group(2)), "names": [codes(n) for n in m.group(1).split(", ")],
                        "spec_s": m.group(2), "names_s": m.group(1).split(", ")})
    blocks = [block_record(b.strip("\n"), tab, register) for b in decls.split("\n\n")]
    return {"ok": True, "notice": notice, "imports": imports, "blocks": blocks, "nl_end": text.endswith("\n")}


def tla_file(a):
    """the part of an abstraction that goes to TLC"""
    return {"imports": [{"spec": i["spec"], "names": i["names"]} for i in a["imports"]],
            "blocks": a["blocks"]}


GNAME_RE = re.compile(r'^export type (\S+)', re.M)


def declared_gnames(text):
    """words following `export type` at the start of a line"""
    return GNAME_RE.findall(text)
