"""Generated programs: render TLC's program descriptors to Rust, build them (sharded workspace,
path dependency on /repo/ts-rs, so always from the working tree), run them, cache the observations.

A corpus is a list of `Unit`s: name, item source (one or more Rust items, the root type has the
unit's name), Rust expressions of sample values, and whether the root derives serde."""
import hashlib
import json
import os
import re
import shutil
import subprocess
import time

import vlib
from vlib import ToolError, log

NSHARDS = 12
TEMPLATES = os.path.join(vlib.HARNESS, "corpus")

# type token -> (Rust type, sample expressions, Default?, object-like?, Option?)
TYS = {
    "i32": ("i32", ["1", "-7"], True, False, False),
    "u64": ("u64", ["3u64", "0u64"], True, False, False),
    "f64": ("f64", ["1.5", "2.0"], True, False, False),
    "string": ("String", ['"hi".to_string()', "String::new()"], True, False, False),
    "bool": ("bool", ["true", "false"], True, False, False),
    "unit": ("()", ["()"], True, False, False),
    "char": ("char", ["'c'"], True, False, False),
    "opt_i32": ("Option<i32>", ["Some(1)", "None"], True, False, True),
    "opt_string": ("Option<String>", ['Some("s".to_string())', "None"], True, False, True),
    "opt_inner": ("Option<Inner>", ["Some(Inner::v1())", "None"], True, False, True),
    "optopt": ("Option<Option<i32>>", ["Some(Some(1))", "Some(None)", "None"], True, False, True),
    "vec_i32": ("Vec<i32>", ["vec![1, 2]", "vec![]"], True, False, False),
    "vec_inner": ("Vec<Inner>", ["vec![Inner::v1()]", "vec![]"], True, False, False),
    "tup": ("(i32, String)", ['(1, "a".to_string())'], True, False, False),
    "arr2": ("[i32; 2]", ["[1, 2]"], True, False, False),
    "arr_nested": ("[[u8; 32]; 3]", ["[[1u8; 32]; 3]"], True, False, False),        # (each level a tuple: 32 and 3 are below the limit, their product is not)
    "map": ("BTreeMap<String, i32>", ['BTreeMap::from([("k".to_string(), 1)])', "BTreeMap::new()"], True, True, False),
    "map_i": ("BTreeMap<i32, Inner>", ["BTreeMap::from([(5, Inner::v1())])", "BTreeMap::new()"], True, False, False),
    "map_e": ("BTreeMap<UnitE, i32>", ["BTreeMap::from([(UnitE::A, 1)])", "BTreeMap::new()"], True, False, False),
    "box_inner": ("Box<Inner>", ["Box::new(Inner::v1())"], True, True, False),
    "inner": ("Inner", ["Inner::v1()", "Inner::v2()"], True, True, False),
    "unite": ("UnitE", ["UnitE::A", "UnitE::B"], True, False, False),
    "datae": ("DataE", ["DataE::N(1)", 'DataE::S { s: "x".to_string() }', "DataE::U"], False, False, False),
    "tage": ("TagE", ["TagE::A { a: 1 }", "TagE::B"], False, True, False),
    "gen_i32": ("Gen<i32>", ["Gen { g: 1, o: None }", "Gen { g: 2, o: Some(3) }"], True, True, False),
    "gen_inner": ("Gen<Inner>", ["Gen { g: Inner::v1(), o: Some(Inner::v2()) }"], True, True, False),
    "pair": ("Pair<String>", ['Pair { a: "a".to_string(), b: vec![1] }'], True, True, False),
    "range": ("std::ops::Range<i32>", ["1..3"], False, False, False),
    # deeper nesting (user types in containers in generics in user types) and a self-referential type
    "deep": ("Deep", ["Deep::v1()", "Deep::default()"], True, True, False),
    "vec_deep": ("Vec<Gen<Deep>>", ["vec![Gen { g: Deep::v1(), o: Some(Deep::default()) }]", "vec![]"], True, False, False),
    "tree": ("Tree", ["Tree::v1()", "Tree::default()"], True, True, False),
    "box_tage": ("Box<TagE>", ["Box::new(TagE::A { a: 1 })", "Box::new(TagE::B)"], False, True, False),
    "box_opt_i32": ("Box<Option<i32>>", ["Box::new(Some(1))", "Box::new(None)"], False, False, False),
    "oneu": ("OneU", ["OneU::Only(TagE::A { a: 1 })", "OneU::Only(TagE::B)"], False, True, False),
    "opt_tree": ("Option<Box<Tree>>", ["Some(Box::new(Tree::v1()))", "None"], True, False, True),
}

# ---- generic programs: a program may take one type parameter T, instantiated at one argument; its fields
# may then use the "parameter tokens" below.  A fused token `<ptok>@<arg>` behaves like any other token: its
# Rust spelling mentions T, its values are those of the instantiation.
GEN_ARGS = {"i32": ("i32", ["1", "-7"]), "inner": ("Inner", ["Inner::v1()", "Inner::v2()"]), "opt_i32": ("Option<i32>", ["Some(1)", "None"]),
            "vec_inner": ("Vec<Inner>", ["vec![Inner::v1()]", "vec![]"]), "unite": ("UnitE", ["UnitE::A", "UnitE::B"])}
# ptok -> (Rust type over T, value expressions over the argument's values v0 / v1, object-like, is an Option)
PTOKS = {
    "T": ("T", ["{v0}", "{v1}"], False, False),
    "opt_T": ("Option<T>", ["Some({v0})", "None"], False, True),
    "vec_T": ("Vec<T>", ["vec![{v0}, {v1}]", "vec![]"], False, False),
    "gen_T": ("Gen<T>", ["Gen { g: {v0}, o: None }", "Gen { g: {v1}, o: Some({v0}) }"], True, False),
    "tup_T": ("(i32, T)", ["(1, {v0})"], False, False),
    "box_T": ("Box<T>", ["Box::new({v0})"], False, False),
    "map_T": ("BTreeMap<String, T>", ['BTreeMap::from([("k".to_string(), {v0})])', "BTreeMap::new()"], True, False),
    "optvec_T": ("Option<Vec<T>>", ["Some(vec![{v0}])", "None"], False, True),
}
PARAM_INST = {}          # fused token -> (type with T := ParamT, type with T := the argument)
for _a, (_aty, _avals) in GEN_ARGS.items():
    for _p, (_pty, _pvals, _obj, _opt) in PTOKS.items():
        _tok = "%s@%s" % (_p, _a)
        _vals = [x.replace("{v0}", _avals[0]).replace("{v1}", _avals[1 % len(_avals)]) for x in _pvals]
        TYS[_tok] = (_pty, _vals, False, _obj, _opt)
        import re as _re
        PARAM_INST[_tok] = (_re.sub(r"\bT\b", "ParamT", _pty), _re.sub(r"\bT\b", _aty, _pty))


def gen_config(args, ptoks):
    return [{"arg": a, "toks": ["%s@%s" % (p, a) for p in ptoks]} for a in args]


FIELD_ATTR = {
    "skip": "#[serde(skip)]", "flatten": "#[serde(flatten)]", "inline": "#[ts(inline)]",
    "optional": "#[ts(optional)]", "optional_nullable": "#[ts(optional = nullable)]",
    "optional_ssi": '#[ts(optional)] #[serde(skip_serializing_if = "Option::is_none", default)]',
    "rename": '#[serde(rename = "Renamed_field")]', "default": "#[serde(default)]",
    "rename_q": '#[serde(rename = "q\\"u\\\\o\\nn")]',        # a name with a double quote and a backslash in it
    "ts_flatten": "#[ts(flatten)]", "ts_rename": '#[ts(rename = "Renamed_field")]',
}
VARIANT_ATTR = {
    "skip": "#[serde(skip)]", "untagged": "#[serde(untagged)]", "rename": '#[serde(rename = "renamed_Variant")]',
    "rename_q": '#[serde(rename = "q\\"u\\\\o\\nn")]',
    "rename_all": '#[serde(rename_all = "camelCase")]', "rename_all_kebab": '#[serde(rename_all = "kebab-case")]',
}
CONTAINER_ATTR = {
    "rename_all": '#[serde(rename_all = "camelCase")]', "rename_all_kebab": '#[serde(rename_all = "kebab-case")]',
    "rename_all_snake": '#[serde(rename_all = "snake_case")]', "rename_all_upper": '#[serde(rename_all = "SCREAMING_SNAKE_CASE")]',
    "rename_all_fields": '#[serde(rename_all_fields = "camelCase")]',
    "tag": '#[serde(tag = "type")]', "optional_fields": "#[ts(optional_fields)]", "rename": '#[serde(rename = "RenamedType")]',
}
# (a flag ts-rs does not know in front of the keys it does: what follows it must still take effect)
REPR_ATTR = {"ext": "", "int": '#[serde(deny_unknown_fields, tag = "t")]', "adj": '#[serde(deny_unknown_fields, tag = "t", content = "c")]', "unt": "#[serde(untagged)]"}
FIELD_NAMES = ["field_one", "_field_two", "field_three"]       # (one name that is not in the conventional case)
VARIANT_NAMES = ["IOVarOne", "VarTwo", "VarThree"]        # (adjacent capitals: the case conversions differ on them)
# the second field and the first variant after `Lead` are DECLARED as raw identifiers (the same name to Rust, serde and ts-rs)
RAW_F = ["", "r#", ""]
RAW_V = ["r#", "", ""]


class Unit:
    def __init__(self, name, src, samples, serde=True, meta=None, deser=True):
        self.name, self.src, self.samples, self.serde, self.meta, self.deser = name, src, samples, serde, meta or {}, deser


def slice_config(kinds, reprs, cattrsets, shapes, vshapes, vattrsets, tys, fattrsets, maxvariants=1, tys2=("string",), fattrsets2=((),), gen=()):
    return {"gen": list(gen), "kinds": kinds, "reprs": reprs, "cattrsets": cattrsets, "shapes": shapes, "vshapes": vshapes,
            "vattrsets": vattrsets, "tys": tys, "fattrsets": fattrsets, "maxvariants": maxvariants,
            "tys2": list(tys2), "fattrsets2": [list(x) for x in fattrsets2],
            "objlike": [t for t, v in TYS.items() if v[3]], "options": [t for t, v in TYS.items() if v[4]],
            "defaultable": [t for t, v in TYS.items() if v[2]]}


def _fields_src(shape, fields, vis="pub "):
    named = shape in ("named", "named0", "struct1", "struct2")
    parts = []
    for i, f in enumerate(fields):
        attrs = " ".join(FIELD_ATTR[a] for a in f["attrs"])
        ty = TYS[f["ty"]][0]
        parts.append("%s %s%s" % (attrs, (vis + RAW_F[i] + FIELD_NAMES[i] + ": ") if named else vis, ty))
    if named:
        return "{ %s }" % ", ".join(parts)
    if shape in ("tuple", "newtype", "tuple0"):
        return "(%s)" % ", ".join(parts)
    return ""


def _value_exprs(fields, k):
    return [TYS[f["ty"]][1][k % len(TYS[f["ty"]][1])] for f in fields]


def _construct(path, shape, fields, k):
    vals = _value_exprs(fields, k)
    if shape in ("named", "named0", "struct1", "struct2"):
        return "%s { %s }" % (path, ", ".join("%s: %s" % (FIELD_NAMES[i], v) for i, v in enumerate(vals)))
    if shape in ("tuple", "newtype", "tuple0"):
        return "%s(%s)" % (path, ", ".join(vals))
    return path


def _nvals(fields):
    return max([len(TYS[f["ty"]][1]) for f in fields] + [1])


def render_program(prog, name):
    """program descriptor (Programs.tla) -> Unit"""
    derive = "#[derive(TS, Serialize, Deserialize, Debug, Clone)]"
    cattrs = " ".join(CONTAINER_ATTR[a] for a in prog["cattrs"])
    samples = []
    if prog.get("garg"):
        # a generic definition `<name>G<T>` and the instantiation `<name>` the observations are made of
        g = render_program(dict(prog, garg=""), name)
        src = g.src.replace("pub struct %s" % name, "pub struct %sG<T>" % name).replace("pub enum %s" % name, "pub enum %sG<T>" % name)
        src += " pub type %s = %sG<%s>;" % (name, name, GEN_ARGS[prog["garg"]][0])
        return Unit(name, src, g.samples, serde=True, meta={"prog": prog})
    if prog["kind"] == "struct":
        body = _fields_src(prog["shape"], prog["fields"])
        semi = ";" if prog["shape"] in ("tuple", "newtype", "tuple0", "unit") else ""
        src = "%s %s pub struct %s %s%s" % (derive, cattrs, name, body, semi)
        if prog["shape"] == "unit":
            src = "%s %s pub struct %s;" % (derive, cattrs, name)
        for k in range(min(_nvals(prog["fields"]), 3)):
            samples.append(_construct(name, prog["shape"], prog["fields"], k))
    else:
        # every enum gets a leading unit variant, so that there is always a second arm
        vs = ["Lead"]
        samples.append("%s::Lead" % name)
        for i, v in enumerate(prog["variants"]):
            attrs = " ".join(VARIANT_ATTR[a] for a in v["attrs"])
            vs.append("%s %s%s %s" % (attrs, RAW_V[i], VARIANT_NAMES[i], _fields_src(v["shape"], v["fields"], vis="")))
            if "skip" not in v["attrs"]:
                for k in range(min(_nvals(v["fields"]), 3)):
                    samples.append(_construct("%s::%s" % (name, VARIANT_NAMES[i]), v["shape"], v["fields"], k))
        src = "%s %s %s pub enum %s { %s }" % (derive, REPR_ATTR[prog["repr"]], cattrs, name, ", ".join(vs))
    return Unit(name, src, samples, serde=True, meta={"prog": prog})


# ------------------------------------------------------------------------------------------------

def repo_state_hash():
    h = hashlib.sha1()
    for root in ("ts-rs/src", "macros/src"):
        for dp, dn, fn in sorted(os.walk(os.path.join(vlib.REPO, root))):
            dn.sort()
            for f in sorted(fn):
                p = os.path.join(dp, f)
                h.update(p.encode())
                h.update(open(p, "rb").read())
    for f in ("ts-rs/Cargo.toml", "macros/Cargo.toml", "Cargo.lock"):
        h.update(open(os.path.join(vlib.REPO, f), "rb").read())
    for f in ("prelude.rs", "runner_main.rs"):
        h.update(open(os.path.join(TEMPLATES, f), "rb").read())
    h.update(open(os.path.abspath(__file__), "rb").read())      # the renderer itself
    return h.hexdigest()[:16]


def _shards(units, n):
    """round robin; units with the same meta["group"] share a shard (every shard has its own copy of the prelude: two
    instantiations of one prelude definition are instantiations of the SAME Rust type only inside one shard)"""
    out, where = [[] for _ in range(n)], {}
    for i, u in enumerate(units):
        g = u.meta.get("group")
        k = where.setdefault(g, i % n) if g is not None else i % n
        out[k].append(u)
    return out


def _rname(j):
    return "runner" if j == 0 else "runner%d" % j


def _write_workspace(d, shards, features, extra_deps="", extra_prelude="", nrunners=1):
    """nrunners: the shards are linked into that many binaries (shard i into runner i % nrunners) - one binary of
    more than 2 GB does not link"""
    os.makedirs(d, exist_ok=True)
    nrunners = max(1, min(nrunners, len(shards)))
    members = ["shard%d" % i for i in range(len(shards))] + [_rname(j) for j in range(nrunners)]
    open(os.path.join(d, "Cargo.toml"), "w").write(
        '[workspace]\nresolver = "2"\nmembers = [%s]\n[profile.dev]\ndebug = false\nincremental = false\nopt-level = 0\n' % ", ".join('"%s"' % m for m in members))
    os.makedirs(os.path.join(d, ".cargo"), exist_ok=True)
    open(os.path.join(d, ".cargo", "config.toml"), "w").write('[net]\noffline = true\n[build]\ntarget-dir = "target"\n')
    if not os.path.exists(os.path.join(d, "Cargo.lock")):
        shutil.copy(os.path.join(vlib.REPO, "Cargo.lock"), os.path.join(d, "Cargo.lock"))
    feat = ", ".join('"%s"' % f for f in features)
    dep = 'ts-rs = { path = "' + vlib.REPO + '/ts-rs", features = [%s] }\nserde = { version = "1", features = ["derive", "rc"] }\nserde_json = "1"\n%s' % (feat, extra_deps)
    for i, units in enumerate(shards):
        sd = os.path.join(d, "shard%d" % i)
        os.makedirs(os.path.join(sd, "src"), exist_ok=True)
        open(os.path.join(sd, "Cargo.toml"), "w").write('[package]\nname = "shard%d"\nversion = "0.0.0"\nedition = "2021"\n[dependencies]\n%s' % (i, dep))
        lines = ["#![allow(dead_code, unused, non_camel_case_types, non_snake_case, clippy::all)]",
                 'pub mod prelude { include!("%s"); %s }' % (os.path.join(TEMPLATES, "prelude.rs"), extra_prelude.replace("\n", " ")),
                 "use prelude::*;"]
        line_of = {}
        for u in units:
            rty = u.meta.get("root_ty", u.name)
            sam = ", ".join("{ let v: %s = %s; ser(&v) }" % (rty, s) for s in u.samples) if u.serde else ""
            de = ("deser::<%s>" % u.name) if (u.serde and u.deser) else "no_deser"
            body = "pub mod m_%s { use super::prelude::*; %s pub fn entry() -> Entry { Entry { name: \"%s\", info: info::<%s>, samples: || vec![%s], deser: %s, export_all_to: export_all_to::<%s> } } }" % (
                u.name.lower(), u.src.replace("\n", " "), u.name, u.meta.get("root_ty", u.name), sam, de, u.meta.get("root_ty", u.name))
            lines.append(body)
            line_of[len(lines)] = u.name
        lines.append("pub fn register(v: &mut Vec<Entry>) { %s }" % " ".join("v.push(m_%s::entry());" % u.name.lower() for u in units))
        new = "\n".join(lines) + "\n"
        p = os.path.join(sd, "src", "lib.rs")
        if not os.path.exists(p) or open(p).read() != new:
            open(p, "w").write(new)
        json.dump(line_of, open(os.path.join(sd, "lines.json"), "w"))
    for j in range(nrunners):
        mine = [i for i in range(len(shards)) if i % nrunners == j]
        rd = os.path.join(d, _rname(j))
        os.makedirs(os.path.join(rd, "src"), exist_ok=True)
        open(os.path.join(rd, "Cargo.toml"), "w").write(
            '[package]\nname = "%s"\nversion = "0.0.0"\nedition = "2021"\n[dependencies]\nserde_json = "1"\n' % _rname(j) +
            "".join('shard%d = { path = "../shard%d" }\n' % (i, i) for i in mine))
        main = "use shard%d::prelude;\nfn register(v: &mut Vec<prelude::Entry>) { %s }\n" % (mine[0], " ".join(
            "{ let mut w = Vec::new(); shard%d::register(&mut w); for e in w { v.push(prelude::Entry { name: e.name, info: e.info, samples: e.samples, deser: e.deser, export_all_to: e.export_all_to }); } }" % i
            for i in mine))
        main += open(os.path.join(TEMPLATES, "runner_main.rs")).read()
        p = os.path.join(rd, "src", "main.rs")
        if not os.path.exists(p) or open(p).read() != main:
            open(p, "w").write(main)


def _cargo_build(d, nrunners=1):
    pk = []
    for j in range(nrunners):
        pk += ["-p", _rname(j)]
    p = vlib.cargo(["build", "--offline", "--keep-going", "--message-format=json", "-q"] + pk, d, capture=True)
    errs = []
    for l in p.stdout.splitlines():
        if not l.startswith("{"):
            continue
        try:
            m = json.loads(l)
        except ValueError:
            continue
        if m.get("reason") == "compiler-message" and m["message"].get("level") == "error":
            errs.append(m)
    return p.returncode, errs, p.stdout


_ALL = []


def _du(path):
    try:
        return int(subprocess.run(["du", "-sk", path], stdout=subprocess.PIPE, stderr=subprocess.DEVNULL, text=True).stdout.split()[0]) * 1024
    except (IndexError, ValueError):
        return 0


def cleanup(limit_gb=3.0):
    """disk hygiene at the end of a check: the build output of the large corpora of this process is removed
    (the observations stay cached; the workspace is rebuilt when a check needs the binaries again)"""
    for c in _ALL:
        t = os.path.join(c.dir, "target")
        if os.path.isdir(t) and _du(t) > limit_gb * 2 ** 30:
            shutil.rmtree(t, ignore_errors=True)


def make_room(own, min_free_gb=30.0):
    """before a large build: if the disk is nearly full, the build output of OTHER corpora goes (largest first)"""
    root = os.path.join(vlib.BUILD, "corpus")
    if not os.path.isdir(root) or shutil.disk_usage(root).free > min_free_gb * 2 ** 30:
        return
    cands = sorted(((_du(os.path.join(root, d, "target")), d) for d in os.listdir(root) if os.path.join(root, d) != own), reverse=True)
    for size, d in cands:
        if shutil.disk_usage(root).free > min_free_gb * 2 ** 30 or size < 2 ** 28:
            break
        log("disk nearly full: removing the build output of corpus %s (%.1f GB)" % (d, size / 2 ** 30))
        shutil.rmtree(os.path.join(root, d, "target"), ignore_errors=True)


class Corpus:
    """build + run a list of Units; observations cached under build/corpus/<tag>-<hash>"""

    def __init__(self, tag, units, features=("serde-compat",), extra_deps="", extra_prelude=""):
        self.tag, self.units, self.features, self.extra_deps, self.extra_prelude = tag, units, features, extra_deps, extra_prelude
        h = hashlib.sha1((repo_state_hash() + json.dumps([(u.name, u.src, u.samples, u.serde, u.deser) for u in units]) + ",".join(features) + extra_deps + extra_prelude).encode()).hexdigest()[:16]
        self.dir = os.path.join(vlib.BUILD, "corpus", tag)
        self.cache = os.path.join(vlib.BUILD, "corpus-cache", "%s-%s.json" % (tag, h))
        self.rejected = {}
        self.build_s = 0.0
        # a shard of more than ~700 kB of source makes rustc need several GB (the derive expands every item):
        # large corpora are cut into more shards
        size = sum(len(u.src) + 3 * sum(len(x) for x in u.samples) + 700 for u in units)
        self.nshards = max(NSHARDS, min(192, -(-size // 350000)))
        self.nrunners = 1
        _ALL.append(self)

    def _ws(self, units):
        _write_workspace(self.dir, _shards(units, self.nshards), self.features, self.extra_deps, self.extra_prelude, self.nrunners)

    def _exes(self):
        return [os.path.join(self.dir, "target", "debug", _rname(j)) for j in range(max(1, min(self.nrunners, self.nshards)))]

    def _route(self, names):
        """unit name -> index of the runner that holds it"""
        units = [u for u in self.units if u.name not in self.rejected]
        nr = max(1, min(self.nrunners, self.nshards))
        where = {}
        for i, sh in enumerate(_shards(units, self.nshards)):
            for u in sh:
                where[u.name] = i % nr
        return [where[n] for n in names]

    def observe(self):
        """-> dict name -> {info, samples}; units rejected at compile time are in self.rejected"""
        if os.path.exists(self.cache):
            c = json.load(open(self.cache))
            self.rejected = c["rejected"]
            self.nrunners = c.get("nrunners", 1)
            self.cached = True
            return c["obs"]
        self.cached = False
        make_room(self.dir)
        t0 = time.time()
        units = list(self.units)
        shards_of = lambda us: _shards(us, self.nshards)
        for attempt in range(10):
            shards = shards_of(units)
            self._ws(units)
            # rustc's memory grows faster than the size of a crate: no shard above ~450 kB of generated source
            biggest = max(os.path.getsize(os.path.join(self.dir, "shard%d" % i, "src", "lib.rs")) for i in range(self.nshards))
            if biggest > 450000 and self.nshards < 192:
                self.nshards = min(192, -(-self.nshards * biggest // 350000))
                shards = shards_of(units)
                self._ws(units)
            rc, errs, out = _cargo_build(self.dir, self.nrunners)
            if rc == 0:
                break
            if "relocation R_X86_64" in out and "out of range" in out and self.nrunners < 16:
                # the binary is too large to link: the same shards, more binaries
                self.nrunners *= 2
                log("corpus %s: runner too large to link, %d runners" % (self.tag, self.nrunners))
                continue
            bad = set()
            for m in errs:
                for sp in m["message"].get("spans", []):
                    mm = re.match(r"shard(\d+)/src/lib.rs", sp.get("file_name", ""))
                    if mm:
                        lo = json.load(open(os.path.join(self.dir, "shard" + mm.group(1), "lines.json")))
                        n = lo.get(str(sp["line_start"]))
                        if n:
                            bad.add(n)
                            self.rejected.setdefault(n, m["message"]["message"][:300])
            if not bad:
                open(os.path.join(vlib.BUILD, "last_corpus_build_%s.log" % self.tag), "w").write(out)
                raise ToolError("corpus %s does not build and no generated item is to blame:\n%s" % (self.tag, out[-3000:]))
            units = [u for u in units if u.name not in bad]
        else:
            raise ToolError("corpus %s still does not build after removing rejected items" % self.tag)
        self.build_s = time.time() - t0
        obs = self._dump("dump.ndjson", None)
        os.makedirs(os.path.dirname(self.cache), exist_ok=True)
        json.dump({"obs": obs, "rejected": self.rejected, "nrunners": self.nrunners}, open(self.cache, "w"))
        return obs

    def _dump(self, fname, env):
        obs = {}
        for exe in self._exes():
            outp = os.path.join(self.dir, fname)
            p = subprocess.run([exe, "dump", outp], cwd=self.dir, env=env)
            if p.returncode != 0:
                raise ToolError("corpus runner failed (rc=%s)" % p.returncode)
            for line in open(outp):
                o = json.loads(line)
                obs[o["name"]] = o
        return obs

    def observe_reversed(self):
        """the same observation with the entries evaluated in the opposite order (same build, new process)"""
        self._ensure_built()
        env = dict(os.environ)
        env["VERIF_ORDER"] = "reverse"
        return self._dump("dump-reversed.ndjson", env)

    def _ensure_built(self):
        units = [u for u in self.units if u.name not in self.rejected]
        self._ws(units)
        rc, errs, out = _cargo_build(self.dir, self.nrunners)
        if rc != 0:
            raise ToolError("corpus %s does not build any more:\n%s" % (self.tag, out[-3000:]))

    def export(self, reqs):
        """reqs: list of dict(name, dir[, cwd]) -> list of dict(name, result)"""
        self._ensure_built()
        inp = os.path.join(self.dir, "export.in")
        outp = os.path.join(self.dir, "export.out")
        exes = self._exes()
        if len(exes) == 1:
            vlib.write_ndjson(inp, reqs)
            if subprocess.run([exes[0], "export", inp, outp], cwd=self.dir).returncode != 0:
                raise ToolError("corpus runner (export) failed")
            return [json.loads(l) for l in open(outp)]
        # several binaries: maximal runs of consecutive requests for the same binary, in order
        route = self._route([r["name"] for r in reqs])
        res, k = [], 0
        while k < len(reqs):
            e = k
            while e < len(reqs) and route[e] == route[k]:
                e += 1
            vlib.write_ndjson(inp, reqs[k:e])
            if subprocess.run([exes[route[k]], "export", inp, outp], cwd=self.dir).returncode != 0:
                raise ToolError("corpus runner (export) failed")
            res += [json.loads(l) for l in open(outp)]
            k = e
        return res

    def deser(self, reqs):
        """reqs: list of (id, name, json text) -> dict id -> {ok: reser} | {err}"""
        self._ensure_built()
        inp = os.path.join(self.dir, "deser.in")
        outp = os.path.join(self.dir, "deser.out")
        exes = self._exes()
        route = self._route([n for _, n, _ in reqs]) if len(exes) > 1 else [0] * len(reqs)
        out = {}
        for r_, exe in enumerate(exes):
            mine = [q for q, w in zip(reqs, route) if w == r_]
            if not mine:
                continue
            with open(inp, "w") as f:
                for i, n, j in mine:
                    f.write(json.dumps({"id": i, "name": n, "json": j}) + "\n")
            if subprocess.run([exe, "deser", inp, outp], cwd=self.dir).returncode != 0:
                raise ToolError("corpus runner (deser) failed")
            out.update({o["id"]: o for o in map(json.loads, open(outp))})
        return out
