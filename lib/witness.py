"""Type-directed enumeration of JSON witnesses of a (real, parsed) TypeScript type, for C02 / C12.
Only a generator: every witness is re-checked by TLC (Inhabits) before it counts."""
import itertools

MAXW = 48


def _leaf(kw):
    return {"number": [1], "bigint": [3], "string": ["w"], "boolean": [True], "null": [None],
            "any": [1], "unknown": [1]}.get(kw, [])


def shapes(t, env, fuel):
    """DNF: list of ('obj', members, idx) | ('non', type)"""
    if fuel <= 0:
        return [("non", t)]
    k = t["k"]
    if k == "obj":
        return [("obj", list(t["ms"]), list(t["idx"]))]
    if k == "union":
        out = []
        for x in t["ts"]:
            out += shapes(x, env, fuel)
        return out
    if k == "inter":
        acc = shapes(t["ts"][0], env, fuel)
        for x in t["ts"][1:]:
            nxt = shapes(x, env, fuel)
            merged = []
            for a in acc:
                for b in nxt:
                    if a[0] == "obj" and b[0] == "obj":
                        merged.append(("obj", a[1] + b[1], a[2] + b[2]))
                    elif a[0] == "non" and b[0] == "non" and a[1] == b[1]:
                        merged.append(a)
            acc = merged
        return acc
    if k == "ref" and t["n"] in env:
        return shapes(expand(t, env), env, fuel - 1)
    if k == "ref" and t["n"] == "Record" and len(t["as"]) == 2:
        return [("obj", [], [{"kty": t["as"][0], "opt": False, "vty": t["as"][1]}])]
    return [("non", t)]


def subst(t, sub):
    k = t["k"]
    if k == "ref":
        if not t["as"] and t["n"] in sub:
            return sub[t["n"]]
        return {"k": "ref", "n": t["n"], "as": [subst(x, sub) for x in t["as"]]}
    if k == "array":
        return {"k": "array", "e": subst(t["e"], sub)}
    if k == "tuple":
        return {"k": "tuple", "es": [subst(x, sub) for x in t["es"]]}
    if k in ("union", "inter"):
        return {"k": k, "ts": [subst(x, sub) for x in t["ts"]]}
    if k == "obj":
        return {"k": "obj", "ms": [{"key": m["key"], "opt": m["opt"], "ty": subst(m["ty"], sub)} for m in t["ms"]],
                "idx": [{"kty": subst(x["kty"], sub), "opt": x["opt"], "vty": subst(x["vty"], sub)} for x in t["idx"]]}
    return t


def expand(t, env):
    d = env[t["n"]]
    sub = {}
    for i, p in enumerate(d["params"]):
        sub[p] = t["as"][i] if i < len(t["as"]) else {"k": "kw", "v": "unknown"}
    return subst(d["body"], sub)


def key_witnesses(kt, env, fuel):
    k = kt["k"]
    if k == "kw":
        return {"string": ["k"], "number": ["5"], "bigint": ["5"], "boolean": ["true"]}.get(kt["v"], [])
    if k == "lit":
        return [kt["v"]]
    if k == "union":
        out = []
        for x in kt["ts"]:
            out += key_witnesses(x, env, fuel)
        return out[:2]
    if k == "ref" and kt["n"] in env and fuel > 0:
        return key_witnesses(expand(kt, env), env, fuel - 1)
    return []


def witnesses(t, env, fuel=6, limit=MAXW):
    out = []
    seen = set()
    for w in _wit(t, env, fuel):
        key = repr(w)
        if key not in seen:
            seen.add(key)
            out.append(w)
        if len(out) >= limit:
            break
    return out


def _wit(t, env, fuel):
    if fuel <= 0:
        return
    k = t["k"]
    if k == "kw":
        yield from _leaf(t["v"])
    elif k == "lit":
        if not t["v"].startswith("#"):
            yield t["v"]
    elif k == "array":
        yield []
        inner = list(itertools.islice(_wit(t["e"], env, fuel - 1), 3))
        for x in inner[:2]:
            yield [x]
        if inner:
            yield [inner[0], inner[-1]]
    elif k == "tuple":
        parts = [list(itertools.islice(_wit(x, env, fuel - 1), 2)) for x in t["es"]]
        if all(parts):
            yield [p[0] for p in parts]
            for i, p in enumerate(parts):
                if len(p) > 1:
                    yield [q[0] if j != i else p[1] for j, q in enumerate(parts)]
    elif k == "ref" and t["n"] == "Array" and len(t["as"]) == 1 and t["n"] not in env:
        yield from _wit({"k": "array", "e": t["as"][0]}, env, fuel)
    else:
        # one generator per alternative of the (normalised) type, drawn from in turn, so that the first few
        # witnesses already cover every alternative
        gens = [_wit_shape(sh, t, env, fuel) for sh in shapes(t, env, fuel)]
        while gens:
            for g in list(gens):
                try:
                    yield next(g)
                except StopIteration:
                    gens.remove(g)


def _wit_shape(sh, t, env, fuel):
    if sh[0] == "non":
        if sh[1] is not t:
            yield from _wit(sh[1], env, fuel - 1)
        return
    ms, idx = sh[1], sh[2]
    # members with the same key (tag repeated by an intersection) must agree: take the first
    req, opt, keys = [], [], set()
    for m in ms:
        if m["key"] in keys:
            continue
        keys.add(m["key"])
        (opt if m["opt"] else req).append(m)
    reqvals = [list(itertools.islice(_wit(m["ty"], env, fuel - 1), 2)) for m in req]
    if not all(reqvals):
        return
    optvals = [list(itertools.islice(_wit(m["ty"], env, fuel - 1), 3)) for m in opt]
    base = {m["key"]: v[0] for m, v in zip(req, reqvals)}
    opt_present = [i for i, v in enumerate(optvals) if v][:3]
    for r in range(len(opt_present) + 1):
        for combo in itertools.combinations(opt_present, r):
            o = dict(base)
            for i in combo:
                o[opt[i]["key"]] = optvals[i][0]
            yield o
    # the other alternatives of an optional member's type (e.g. the `null` of `T | null`)
    for i in opt_present:
        for alt in optvals[i][1:]:
            o = dict(base)
            o[opt[i]["key"]] = alt
            yield o
    for i, v in enumerate(reqvals):
        if len(v) > 1:
            o = dict(base)
            o[req[i]["key"]] = v[1]
            yield o
    for x in idx:
        kws = key_witnesses(x["kty"], env, fuel)
        vs = list(itertools.islice(_wit(x["vty"], env, fuel - 1), 1))
        if kws and vs:
            o = dict(base)
            o[kws[0]] = vs[0]
            yield o


def near_misses(sample, root_t, env):
    """variations of a real serialized sample that should still inhabit the type"""
    out = []
    if isinstance(sample, dict) and len(sample) > 1:
        items = list(sample.items())
        out.append(dict(reversed(items)))                      # member order is irrelevant
        for k, v in items:
            if v is None:
                out.append({a: b for a, b in items if a != k})   # null -> absent (only valid where the member is optional)
    return out
