"""Single source for MANIFEST.json: which properties are claimed, with what level and words.
`bin/mkmanifest` regenerates MANIFEST.json from this table."""

HOOK_COMMITS = ["dd746d4", "4649a0c", "f0f9d5b"]

CHECKS = {
    "C08": dict(
        category="model_checking",
        technique="TLA+ transcription of absolute/diff_paths/import_path (Paths.tla) model-checked by TLC over all path pairs to a depth bound; every pair replayed through the real import_path; C08_Holds evaluated by TLC on the real results (Trace_Paths.tla)",
        text="Exhaustive within the bound: every (base spelling x importing directory x imported file) up to depth 2 (quick) / 3 (thorough) over a component alphabet with `.`, `..`, dotted names and names ending in ts, import-esm off and on. The property (relative, forward slashes, extension handling, resolves to exactly the dependency's file) is checked by TLC on the model AND on what the real function returned for every enumerated pair, so a change to the code is caught even when it leaves the model behind.",
        note="Trusted: TLC, the JSON bridge, Linux path semantics (Windows branch not executed). Resolution of a specifier is modelled as segment walk + `.ts`. File names end in `.ts`.",
        design_ref="DESIGN.md section 5 (C08), section 3.8"),
}

NOT_YET = "check not built yet (work in progress, see DESIGN.md appendix B)"
