"""Single source for MANIFEST.json: which properties are claimed, with what level and words.
`bin/mkmanifest` regenerates MANIFEST.json from this table."""

HOOK_COMMITS = ["dd746d4", "4649a0c", "f0f9d5b", "29afb13", "bac1db4"]

CHECKS = {
    "C08": dict(
        category="model_checking",
        technique="TLA+ transcription of absolute/diff_paths/import_path (Paths.tla) model-checked by TLC over all path pairs to a depth bound; every pair replayed through the real import_path; C08_Holds evaluated by TLC on the real results (Trace_Paths.tla)",
        text="Exhaustive within the bound: every (base spelling x importing directory x imported file) up to depth 2 (quick) / 3 (thorough) over a component alphabet with `.`, `..`, dotted names and names ending in ts, import-esm off and on. The property (relative, forward slashes, extension handling, resolves to exactly the dependency's file) is checked by TLC on the model AND on what the real function returned for every enumerated pair, so a change to the code is caught even when it leaves the model behind.",
        note="Trusted: TLC, the JSON bridge, Linux path semantics (Windows branch not executed). Resolution of a specifier is modelled as segment walk + `.ts`. File names end in `.ts`.",
        design_ref="DESIGN.md section 5 (C08), section 3.8"),
    "C05": dict(
        category="model_checking",
        technique="TLA+ model of the textual merge (Merge.tla) and of export_and_merge under its lock (Export.tla); TLC enumerates every export order with repetitions over the shared-file types of a measured universe; each history replayed through the real TS::export*; TLC (Trace_Export.tla, Trace_Confluence.tla) judges the real files",
        text="Every sequence (all orders, all prefixes, repetitions) of exports of up to 4/5 types into one shared file - types with doc comments, non-ASCII docs, blank doc lines, `export type` inside docs, multi-line declarations, prefix and generic names, overlapping imports - is a TLC behaviour whose quiescent states satisfy `file = canonical file of the registered names` on the model; each behaviour is replayed on the real code and TLC evaluates on the real bytes: notice, sorted unioned imports, every declaration intact exactly once in name order, and identical bytes for identical exported sets. Thread interleavings: see DESIGN.md (threads).",
        note="Trusted: TLC, lib/textabs.py cutting text where fn merge cuts it, the harness. Universe of declaration texts is harness/rt/src/universe.rs.",
        design_ref="DESIGN.md section 5 (C05), 3.10, 3.11"),
    "C06": dict(
        category="model_checking",
        technique="TLA+ state machine of the exporter (Export.tla: registry, files, path normalisation, recursion) refined against ExportAbs.tla; TLC enumerates all call sequences over entry points x directory spellings x types; replay on the real entry points; trace adjudication by TLC",
        text="All histories of length <=3 over {export, export_all, export_all_to} x {4-6 types incl. shared files, dependency chains, cycles, generics} x {default, absolute, ./, trailing slash, .. segments, another directory} and stale initial contents: the model satisfies `files are a function of the registry` in every state; every history is replayed against the real library in a fresh directory and TLC checks on the observed trees that nothing exported is ever lost, stale bytes do not survive, files are canonical, and equal exported sets give byte-identical trees.",
        note="Trusted: TLC, the harness, no symlinks. Directory spellings denote the same directory lexically.",
        design_ref="DESIGN.md section 5 (C06), 3.11"),
    "C11": dict(
        category="model_checking",
        technique="Export.tla/ExportAbs.tla: Closure (reachability over the measured visit lists) and Loc (documented location rule); histories enumerated by TLC, replayed with before/after snapshots of the whole sandbox (pre-populated with unrelated files), judged by TLC",
        text="For every replayed call TLC checks on the real before/after snapshots: an Ok call leaves every exportable type reachable from the root declared in the file at base.join(output_path()) (normalised), and the set of created/changed paths is contained in those locations and their parent directories - unrelated and stale files, other directories and `..`-escaped locations included.",
        note="Trusted: TLC, the harness snapshots (bytes, not mtime). The attribute-form rule (default / dir/ / file) is compared with output_path() in the C03/C11 corpus check when built.",
        design_ref="DESIGN.md section 5 (C11)"),
    "C17": dict(
        category="model_checking",
        technique="Export.tla with environment steps (obstacle put/removed) and failing steps; TLC enumerates [pre call] obstacle, blocked call, removal, retry [post call] and self-failing calls; replay with real obstacles under catch_unwind; TLC judges results and trees",
        text="Fault enumeration by the model checker: every obstacle kind (target is a directory, a parent is a regular file, the export directory is a file, path above the root, non-exportable root, dependency above the root) before every call that it blocks, with and without earlier exports, then removal and retry, then a further export. TLC checks on the real observations: the blocked call returns Err (never panics, lock never poisoned), a call fails exactly when something is in its way, nothing but its own targets changes, and after the retry the tree is the fault-free one (same exported set => same bytes).",
        note="Trusted: TLC, the harness. Obstacles are placed only where they destroy nothing.",
        design_ref="DESIGN.md section 5 (C17)"),
    "C09": dict(
        category="model_checking",
        technique="TLA+ transcription of ts-rs's and serde_derive's case conversions (Inflection.tla) model-checked by TLC over all identifiers to a length bound; names read from in-process expansions of the real derive and from serde_derive's own case.rs; equality judged by TLC (Trace_Inflection.tla)",
        text="Exhaustive within the bound: every legal Rust identifier of length <=4 (quick) / <=5 (thorough) over {ASCII lower, ASCII upper, digit, underscore, non-ASCII lower, non-ASCII upper, sharp s} x 8 rules x {struct field, enum variant} (+ struct-variant fields via rename_all_fields and via the variant's own rename_all). TLC checks name_ts = name_serde on the transcriptions and on the names produced by the real derive and by the real serde_derive routine.",
        note="Trusted: TLC; the regular expressions that read a property name / variant literal out of the expansion (a failure to read is a tool error); serde_derive's source in the offline registry is the oracle. Identifiers on which serde_derive itself panics are outside the domain.",
        design_ref="DESIGN.md section 5 (C09), 3.7"),
    "C16": dict(
        category="model_checking",
        technique="TLA+ transcription of the attribute tables, merge rules, assert_validity clauses and shape dispatch (Attrs.tla); TLC grows items attribute by attribute and predicts Accept / Reject / RejectAtTypeck; every item expanded in-process by the real derive under catch_unwind; accepted items compiled by rustc; rejected sample through the real proc-macro entry point; verdicts by TLC (Trace_Attrs.tla); case-conversion panics via Inflection.tla",
        text="~39k (quick) distinct items = {struct, enum} x 6 field shapes x subsets of attribute palettes at container/variant/field level (valid keys, unknown keys, wrong value forms, ts and serde spellings) are TLC states; each is run through the real derive: never a panic; everything the documentation/validity clauses call invalid is diagnosed (derive error or rustc error); accepted items compile, `optional` on a non-Option fails with the IsOption diagnostic; rejected items produce ordinary compile errors through the real entry point; plus every identifier x rule of the C09 domain never panics. Outcome class predicted by the transcription for every item (drift = 0 on the unchanged tree).",
        note="Trusted: TLC, rustc, the item renderer. Known findings KF-C16-1/2 (bodies of overridden containers / skipped variants are not validated) are recorded in known_findings.json. Generics, where-clauses and raw/keyword identifiers inside items are not generated yet.",
        design_ref="DESIGN.md section 5 (C16), 3.3, appendix E"),
    "C10": dict(
        category="model_checking",
        technique="TLA+ model of attribute-list parsing and ts-over-serde merging (Attrs.tla); TLC enumerates, per position and key, the spelling pairs the property equates and checks them on the model; both spellings expanded in-process by the real derive under each feature set; equality of implementations judged by TLC (Trace_AttrEquiv.tla)",
        text="For every position {struct, enum, variant, field} and every key supported in both namespaces: #[serde(K)] vs #[ts(K)]; one list vs split lists; ts value vs a different serde value in both list orders; each of 10 unsupported or unparseable serde entries (skip_serializing_if, rename(serialize=..), bound(..), default = path, other, alias, deny_unknown_fields, borrow, getter, crate) at every index of 1- and 2-entry lists; and with serde-compat off a serde list vs none - under serde-compat on/off x no-serde-warnings on/off. Each pair must expand without error to the same implementation.",
        note="Trusted: TLC; canonicalisation sorts only the dependency statements and where-predicates (HashSet order). `#[serde(with)]` is excluded from 'inert' because ts-rs documents that it demands #[ts(as/type)].",
        design_ref="DESIGN.md section 5 (C10), 3.3"),
    "C01": dict(
        category="model_checking",
        technique="TLC enumerates every program of each slice of Programs.tla (explicit generator with the compile-time domain as WellFormed); each program is compiled as a real item deriving TS + serde; TsTypes.tla's denotation Inhabits(json, type, env) is evaluated by TLC on the real serde_json output against the real, parsed decl() (Trace_Binding.tla)",
        text="~1.7k (quick) / ~15k (thorough) programs: all enum representations x per-variant untagged/skip/rename x 7 variant shapes x field types and skip/inline; rename_all / rename_all_fields / variant rename_all; named structs x 20 field types x {skip, flatten, inline, optional, optional=nullable, rename, default} x {tag, rename_all, optional_fields}; tuple/newtype/unit/empty structs; nesting through helper structs, enums of every representation and generics. For every generated value (each variant, Some/None, empty/non-empty) TLC decides membership of the real JSON in the real declared type, references followed, objects exact, bigint = JSON integer.",
        note="Trusted: TLC, lib/tsparse.py (parser of the emitted TypeScript), serde/serde_json as pinned (the oracle), the renderer. Known findings KF-C01-1..4.",
        design_ref="DESIGN.md section 5 (C01), 3.1, 3.2"),
    "C02": dict(
        category="model_checking",
        technique="same corpus and denotation as C01; witnesses enumerated from the real declared type (type-directed) and near-miss variants of real samples, each confirmed an inhabitant by TLC (TsTypes.tla), then fed to the real serde Deserialize; acceptance and re-serialised membership judged by TLC",
        text="For every program on which serde round-trips its own output: each union arm, optional-member subsets, array lengths 0..2, map sizes 0..1 and reordered / null-dropped variants of real samples (24/60 witnesses per program). A witness counts only after TLC has confirmed Inhabits(w, type); it must be accepted by Deserialize and serialize back into the type.",
        note="Trusted: as C01. Witness generation is sampling within the declared type (not exhaustive); numbers are small integers. Known findings KF-C02-1..4.",
        design_ref="DESIGN.md section 5 (C02)"),
    "C12": dict(
        category="model_checking",
        technique="table of library types instantiated as real aliases in a generated crate; real name()/inline() parsed; real serde_json output of representative values and type-directed witnesses judged by TLC with the denotation of TsTypes.tla (Trace_Binding.tla); dependencies of a holder struct compared with the user types among the arguments",
        text="~115 rows: all primitive and NonZero integer widths, floats, bool, char, strings, paths, the six network address types, unit, Option (nested), Result, Vec, slices, arrays N in {0,1,2,3,32} (+64/65 by name), tuples 1..10, sets, maps with String/i32/u64/bool/char/unit-enum keys, ranges, Box/Rc/Arc/Cow/Cell/RefCell/Mutex/RwLock/Weak/PhantomData, serde_json::Value/Number/Map, and compositions to depth 3 with user structs/enums/generics; plus the feature-gated crates (chrono, uuid, url, bigdecimal, bson, bytes, indexmap, ordered-float, heapless, semver, smol_str; tokio by name). Per row: every value's real JSON inhabits name() and inline(); witnesses of the type are accepted by Deserialize and serialize back into it; dependencies are exactly the user types among the arguments.",
        note="Trusted: TLC, tsparse, serde as pinned. String-like types with a value grammar (addresses, dates, uuids, urls, versions) are checked for shape only. Known finding KF-C12-1.",
        design_ref="DESIGN.md section 5 (C12), 3.6"),
    "C14": dict(
        category="model_checking",
        technique="sibling items (by name / inline / as / flatten of one underlying type) compiled for real; denotational equivalence of their real declarations decided by TLC (Inhabits of TsTypes.tla on type-directed witnesses, both directions, Trace_Binding.tla)",
        text="Inline: every pair of programs of the C01 corpus (all slices) differing only by #[ts(inline)] on a field. As: #[ts(as = \"T\")] on an opaque field against the field typed T at 6 positions (named, newtype, tuple, variant payload, variant, `_` placeholder) x 14 type constructors; container-level `as` against the inlined type. Flatten: against hand-expanded structs, and inline-inside-flatten / flatten-inside-inline / flatten-of-flatten. Plus inline() = body of decl_concrete() for every type of both corpora. A presentation that panics at run time is a violation.",
        note="Trusted: as C01. Equivalence is decided on bounded witness sets of both sides, not by a normal form.",
        design_ref="DESIGN.md section 5 (C14)"),
    "C07": dict(
        category="model_checking",
        technique="a family of generic definitions instantiated at several arguments in a generated crate; parametricity, parameter list, scoping and name() judged by TLC on the parsed real declarations (Trace_Generic.tla, FreeNames of TsTypes.tla); expansion-vs-concrete equivalence by TLC on witnesses (Trace_Binding.tla)",
        text="21 definitions (parameter bare, in Option/Vec/map/tuple/array, in another generic, inlined, flattened, optional; two parameters; defaults incl. a default naming another parameter and a user type; lifetime; const parameter; concrete(..); enums incl. adjacently tagged; newtype/tuple structs; recursive; where-clause) x 3 argument choices: identical declaration for every choice, exactly the non-concretised parameters in order with defaults, no unbound names, name() = ident<names of arguments>, Subst(decl, args) denotes decl_concrete().",
        note="Trusted: as C01; the family of definitions is hand-written.",
        design_ref="DESIGN.md section 5 (C07)"),
    "C03": dict(
        category="model_checking",
        technique="Graphs.tla enumerates (edge kind x placement of dependency x placement of root x directory spelling); each case is a real module exported by the real export_all_to (import-esm off/on); every written file parsed; closure judged by TLC with FreeNames (TsTypes.tla) and Resolve (Paths.tla) in Trace_Imports.tla",
        text="33 edge kinds (by name, through Option/Vec/Box/map/tuple/array/Result/Range, generic argument, argument of argument, parameter default, inline, inlined generic, flatten, flattened enum, as, type override, skip, optional, self reference, cycle, payloads of every enum representation, inlined newtype variants in tagged enums, variant/container as, two types in one file) at the default placement, and every combination of 6-8 dependency placements x 3-5 root placements x 2-4 directory spellings for seven of them, under import-esm off and on. Per written file: imported names = free names of its declarations minus same-file names, parameters and built-ins; each once; every specifier well-formed and resolving to a written file that declares the name; no self-import. Static half: a file importing exactly dependencies() must be closed for decl().",
        note="Trusted: TLC, tsparse, module resolution as in C08. Names inside #[ts(type = ..)] overrides are user text.",
        design_ref="DESIGN.md section 5 (C03)"),
    "C13": dict(
        category="model_checking",
        technique="model: visit order is a nondeterministic choice in Export.tla (all orders explored by TLC in C05/C06); implementation: the dependency-graph corpus compiled several times from scratch (fresh macro processes), the exporter universe exported under 1/2/4/8 threads and shuffled root orders; every observable (public string function, exported file) must have a single value - judged by TLC (Determinism.tla)",
        text="Observables: decl, decl_concrete, name, inline, inline_flattened, export_to_string, output_path and DOCS of ~60 types with many dependencies, shared files and generics, plus every exported file, under 2 (quick) / 4 (thorough) independent from-scratch builds; plus every file of the exporter universe (shared file of 9 types, two instantiations of two generics, cycles, escapes) exported by 1, 2, 4, 8 threads in shuffled orders. The run also measures that the dependency order really differed between builds (18 types in the recorded run) and inside one macro process, i.e. that the nondeterminism the outputs must hide was present.",
        note="Trusted: TLC for the equality judgement, cargo for independent builds. Nondeterminism that does not materialise in the explored builds/schedules is not seen; the model-level statement (all visit orders) is checked in C05/C06.",
        design_ref="DESIGN.md section 5 (C13)"),
    "C04": dict(
        category="model_checking",
        technique="a TypeScript lexer as a character-level state machine (Lexical.tla) and a recursive-descent grammar of exported files (TsGrammar.tla), both in TLA+ and independent of ts-rs; TLC enumerates strings over character classes with the model's verdict on ts-rs's quoting (MC_Lexical.tla); real items carry each string at every position; TLC lexes and parses the real export_to_string() and written files (Trace_Module.tla)",
        text="Every string of length <=2 (quick) / <=3 (thorough) over {letter, digit, _, $, space, -, \", ', \\, *, /, non-ASCII letter} incl. the empty string, at 7 positions (field rename, unit / struct variant rename, enum tag, content, struct tag, container rename) plus raw / keyword / non-ASCII identifiers, kebab-cased names under every field presentation, generics with defaults, empty shapes, deep nesting; import-esm off and on; export_to_string() and the file written by export_all_to. TLC decides: lexes, parses as imports-then-exports, begins with the notice, declares exactly the expected name once, ends with a newline. The harness parser is calibrated against the TLA+ grammar on every text.",
        note="Trusted: TLC; Python's unicodedata for the character classes. `format` and no-serde-compat configurations are not in this run. Known finding KF-C04-1.",
        design_ref="DESIGN.md section 5 (C04), 3.9"),
    "C15": dict(
        category="model_checking",
        technique="MC_Docs.tla enumerates doc texts x syntax x position and renders the JSDoc block with a transcription of parse_docs, lexed by Lexical.tla (model verdict: contained); real documented items next to undocumented siblings, and documented types merged into shared files; TLC (Trace_Module.tla) compares comment-free token streams, counts comments, checks placement and containment of the text",
        text="Doc texts of <=2/3 lines over {words, empty line, `*/`, `/*`, a glob, `export type X`, quotes, backslashes, non-ASCII, a 300-character line, `//`, ` * `} x {/// lines, #[doc] attributes, one multi-line block} x 10 positions (container of struct/enum, named field, renamed field, tuple field, variant, field of a struct variant, flattened, optional and type-overridden fields), alone and merged between two neighbours in a shared file. TLC decides on the real text: tokens without comments equal the undocumented sibling's; comments are exactly the documented positions; each immediately precedes its declaration / property and contains the text.",
        note="Trusted: TLC, character classification. Docs reach the derive as #[doc] attributes (what rustc produces for /// and /** */).",
        design_ref="DESIGN.md section 5 (C15)"),
}

NOT_YET = "check not built yet (work in progress, see DESIGN.md appendix B)"
