"""Common machinery for the /verif checks: running TLC, building the harnesses from /repo's
working tree, known findings, evidence files, VIOLATION / KNOWN-FINDING lines.

Exit codes used by bin/check: 0 = property held on everything explored (possibly with
KNOWN-FINDING lines), 1 = at least one VIOLATION line was printed, 2 = tool error.
"""
import hashlib
import json
import os
import re
import shutil
import subprocess
import sys
import time

VERIF = os.path.dirname(os.path.dirname(os.path.abspath(__file__)))
# (VP_RUN_REPO: the snapshot of /repo's HEAD that `vp run --with-repo` hands to a background run)
REPO = os.environ.get("VERIF_REPO") or os.environ.get("VP_RUN_REPO") or "/repo"
BUILD = os.path.join(VERIF, "build")
SPEC = os.path.join(VERIF, "spec")
# scratch files of one run (configurations, traces, observations): a directory of its own per process, so that
# checks which share code (C01 / C02 / C14, C03 / C08 / C11 / C13, ..) can run at the same time
TMP = os.path.join(BUILD, "tmp-%d" % os.getpid())


def _tmp_setup():
    import atexit
    os.makedirs(TMP, exist_ok=True)
    atexit.register(lambda: shutil.rmtree(TMP, ignore_errors=True))


_tmp_setup()
EVID = os.path.join(VERIF, "evidence")
REPLAYS = os.path.join(VERIF, "replays")
HARNESS = os.path.join(VERIF, "harness")
TLA_CP = "/opt/veriftools/tla/tla2tools.jar:/opt/veriftools/tla/CommunityModules-deps.jar"


class ToolError(Exception):
    pass


def log(*a):
    print(*a, flush=True)


def seed():
    try:
        return int(os.environ.get("VERIF_SEED", "1"))
    except ValueError:
        return 1


def shm_dir(tag):
    """A scratch directory on tmpfs (fast create+fsync); falls back to build/."""
    base = "/dev/shm" if os.path.isdir("/dev/shm") and os.access("/dev/shm", os.W_OK) else os.path.join(BUILD, "sandbox")
    d = os.path.join(base, "verif-%s-%d" % (tag, os.getpid()))
    shutil.rmtree(d, ignore_errors=True)
    os.makedirs(d)
    return d


# --------------------------------------------------------------------------- TLC

_TLA_ESC = re.compile(r'\\(.)')


def _tla_unescape(s):
    # TLC prints strings with \" and \\ escaped (and \n \t etc. as-is escapes)
    def rep(m):
        c = m.group(1)
        return {"n": "\n", "t": "\t", "r": "\r", "f": "\f"}.get(c, c)
    return _TLA_ESC.sub(rep, s)


class TlcResult:
    def __init__(self):
        self.stdout = ""
        self.rc = None
        self.generated = 0
        self.distinct = 0
        self.depth = 0
        self.tagged = {}      # tag -> list of decoded JSON payloads
        self.violated = None  # name of violated invariant/property, if any
        self.error = None
        self.coverage = {}    # action name -> count (when -coverage was on)
        self.wall = 0.0

    def payloads(self, tag):
        return self.tagged.get(tag, [])


def run_tlc(module, cfg, workers=4, env=None, timeout=600, simulate=None, depth=None,
            tlc_seed=None, coverage=False, deque=False, xmx="4g", tags=("CASE",), tag_file=None,
            metatag=None, extra=()):
    """Run TLC on spec/<module>.tla with spec/cfg/<cfg>. Returns TlcResult.
    Lines printed by PrintT(<<"TAG", ToJson(x)>>) are decoded into result.tagged[TAG]."""
    os.makedirs(os.path.join(BUILD, "tlc"), exist_ok=True)
    meta = os.path.join(BUILD, "tlc", "%s-%s-%d" % (metatag or module, os.path.basename(cfg), os.getpid()))
    shutil.rmtree(meta, ignore_errors=True)
    jopts = "-Xss1g"
    if deque:
        jopts += " -Dtlc2.tool.queue.IStateQueue=StateDeque"
    e = dict(os.environ)
    e["JAVA_TOOL_OPTIONS"] = jopts
    if env:
        e.update({k: str(v) for k, v in env.items()})
    cmd = ["timeout", str(timeout), "java", "-XX:+UseParallelGC", "-Xmx" + xmx, "-cp", TLA_CP, "tlc2.TLC",
           "-workers", str(workers), "-metadir", meta, "-cleanup", "-noGenerateSpecTE",
           "-config", cfg if os.path.isabs(cfg) else os.path.join(SPEC, "cfg", cfg)]
    if coverage:
        cmd += ["-coverage", "1"]
    if simulate is not None:
        cmd += ["-simulate", "num=%d" % simulate]
        if depth:
            cmd += ["-depth", str(depth)]
    if tlc_seed is not None:
        cmd += ["-seed", str(tlc_seed)]
    cmd += list(extra)
    cmd += [os.path.join(SPEC, module + ".tla")]
    t0 = time.time()
    p = subprocess.run(cmd, cwd=SPEC, env=e, stdout=subprocess.PIPE, stderr=subprocess.STDOUT, text=True)
    r = TlcResult()
    r.wall = time.time() - t0
    r.stdout = p.stdout
    r.rc = p.returncode
    shutil.rmtree(meta, ignore_errors=True)
    pat = re.compile(r'^<<"([A-Z0-9_]+)", "(.*)">>$')
    for line in p.stdout.splitlines():
        m = pat.match(line)
        if m and m.group(1) in tags:
            try:
                r.tagged.setdefault(m.group(1), []).append(json.loads(_tla_unescape(m.group(2))))
            except Exception as ex:  # noqa
                raise ToolError("cannot decode TLC payload line: %r (%s)" % (line[:200], ex))
            continue
        m = re.match(r'^(\d+) states generated, (\d+) distinct states found', line)
        if m:
            r.generated, r.distinct = int(m.group(1)), int(m.group(2))
        m = re.match(r'^The depth of the complete state graph search is (\d+)', line)
        if m:
            r.depth = int(m.group(1))
        m = re.match(r'^Error: Invariant (\S+) is violated', line)
        if m:
            r.violated = m.group(1)
        m = re.match(r'^Error: Action property (\S+) is violated', line)
        if m:
            r.violated = m.group(1)
        if line.startswith("Error: Temporal properties were violated"):
            r.violated = "temporal"
        if line.startswith("Error:") and r.error is None:
            r.error = line
        m = re.match(r'^<(\w+) line \d+, col \d+ to line \d+, col \d+ of module (\w+)>: (\d+):(\d+)', line)
        if m:
            r.coverage[m.group(1)] = r.coverage.get(m.group(1), 0) + int(m.group(4))
    if p.returncode == 124:
        raise ToolError("TLC timed out after %ss on %s/%s" % (timeout, module, cfg))
    return r


def tlc_must_succeed(r, what):
    """TLC ran to completion without any error (used for PREDICT over clean domains and for
    trace adjudication where verdicts travel through payloads)."""
    if r.rc != 0 or r.error:
        tail = "\n".join(r.stdout.splitlines()[-40:])
        full = os.path.join(BUILD, "tlc-failure-%s.log" % re.sub(r"[^A-Za-z0-9_]+", "_", what))
        with open(full, "w") as f:
            f.write(r.stdout)
        raise ToolError("TLC failed on %s (rc=%s, error=%s; full output in %s)\n%s" % (what, r.rc, r.error, full, tail))


def sany(path):
    p = subprocess.run(["java", "-cp", TLA_CP, "tla2sany.SANY", path], cwd=os.path.dirname(path),
                       stdout=subprocess.PIPE, stderr=subprocess.STDOUT, text=True)
    ok = p.returncode == 0 and "Semantic errors" not in p.stdout and "*** Errors" not in p.stdout and "Parse Error" not in p.stdout
    return ok, p.stdout


# --------------------------------------------------------------------------- cargo

def cargo(args, cwd, env=None, timeout=3600, capture=False):
    e = dict(os.environ)
    e.setdefault("CARGO_NET_OFFLINE", "true")
    if env:
        e.update(env)
    p = subprocess.run(["cargo"] + args, cwd=cwd, env=e, stdout=subprocess.PIPE if capture else None,
                       stderr=subprocess.STDOUT if capture else None, text=True, timeout=timeout)
    return p


def ensure_lock(harness_dir):
    """Harness workspaces resolve offline with /repo's lock file as a starting point."""
    lock = os.path.join(harness_dir, "Cargo.lock")
    if not os.path.exists(lock):
        shutil.copy(os.path.join(REPO, "Cargo.lock"), lock)


def build_harness(name, features=(), bins=None, release=True, extra_env=None):
    """Build harness/<name> (path dependency on /repo/ts-rs => always from the working tree)."""
    d = os.path.join(HARNESS, name)
    if REPO != "/repo":
        # the manifests name /repo: build a copy that names the other tree
        alt = os.path.join(BUILD, "harness-alt", name)
        shutil.rmtree(alt, ignore_errors=True)
        shutil.copytree(d, alt, ignore=shutil.ignore_patterns("target"))
        fp = os.path.join(alt, "Cargo.toml")
        txt = open(fp).read().replace("/repo/", REPO.rstrip("/") + "/")
        open(fp, "w").write(txt)
        d = alt
        extra_env = dict(extra_env or {}, VERIF_REPO=REPO)
    ensure_lock(d)
    args = ["build", "--offline", "-q"]
    if release:
        args.append("--release")
    if features:
        args += ["--features", ",".join(features)]
    t0 = time.time()
    p = cargo(args, d, env=extra_env, capture=True)
    if p.returncode != 0:
        raise ToolError("cargo build of harness %s failed:\n%s" % (name, p.stdout[-6000:]))
    return time.time() - t0


# --------------------------------------------------------------------------- findings / verdicts

def load_known_findings():
    p = os.path.join(VERIF, "known_findings.json")
    if not os.path.exists(p):
        return {"findings": [], "fixed": []}
    return json.load(open(p))


def _sig_match(sig, desc):
    """A signature matches a case descriptor if every key of the signature is present in the
    descriptor with an equal value (lists in the signature: descriptor value must be one of them)."""
    for k, v in sig.items():
        if k not in desc:
            return False
        if isinstance(v, dict) and "any_of" in v:
            if desc[k] not in v["any_of"]:
                return False
        elif desc[k] != v:
            return False
    return True


class Verdicts:
    """Collects failing cases of one property, matches them against known_findings.json,
    prints VIOLATION / KNOWN-FINDING lines, writes replay files."""

    def __init__(self, prop):
        self.prop = prop
        self.kf = [f for f in load_known_findings().get("findings", []) if f["property"] == prop]
        shutil.rmtree(os.path.join(REPLAYS, prop), ignore_errors=True)
        self.violations = []
        self.known_hits = {}
        self.notes = []

    def fail(self, desc, detail):
        """desc: flat dict describing the failing case (used for signature matching);
        detail: anything replayable."""
        for f in self.kf:
            if _sig_match(f["signature"], desc):
                self.known_hits.setdefault(f["id"], []).append(desc)
                return "known"
        self.violations.append((desc, detail))
        return "violation"

    def note(self, msg):
        self.notes.append(msg)
        log("NOTE " + msg)

    def finish(self):
        for f in self.kf:
            hits = self.known_hits.get(f["id"], [])
            if hits:
                log("KNOWN-FINDING: property=%s %s [%s; %d case(s) in this run]" % (self.prop, f["what"], f["id"], len(hits)))
        os.makedirs(os.path.join(REPLAYS, self.prop), exist_ok=True)
        shown = 0
        for desc, detail in self.violations:
            h = hashlib.sha1(json.dumps(desc, sort_keys=True).encode()).hexdigest()[:12]
            path = os.path.join(REPLAYS, self.prop, h + ".json")
            if shown < 200:
                json.dump({"property": self.prop, "descriptor": desc, "detail": detail}, open(path, "w"), indent=1)
            if shown < 25:
                log("VIOLATION property=%s replay=%s" % (self.prop, path))
                log("  descriptor: " + json.dumps(desc, sort_keys=True)[:600])
            shown += 1
        if shown > 25:
            log("  ... and %d more violations (replay files written for the first 200)" % (shown - 25))
        return 1 if self.violations else 0


def write_evidence(prop, tier, level, coverage, assumptions, wall, violations):
    os.makedirs(EVID, exist_ok=True)
    ev = {"property_id": prop, "tier": tier, "seed": seed(), "level": level, "coverage": coverage,
          "assumptions": assumptions, "wall_s": round(wall, 2), "violations": violations}
    json.dump(ev, open(os.path.join(EVID, prop + ".json"), "w"), indent=1)


def write_ndjson(path, records):
    with open(path, "w") as f:
        for r in records:
            f.write(json.dumps(r, ensure_ascii=True, separators=(",", ":")) + "\n")


def chars(s):
    """A string as TLC sees it: a sequence of one-character strings."""
    return list(s)
