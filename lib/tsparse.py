"""An independent TypeScript lexer and parser for the fragment ts-rs emits (types, `export type`
declarations, `import type` statements, comments) producing the tagged AST of TsTypes.tla.

It is deliberately strict: anything outside the grammar raises TsSyntaxError, which the checks
report as "does not parse" (C04) - never silently repaired."""
import re
import unicodedata


class TsSyntaxError(Exception):
    pass


KEYWORD_TYPES = {"number", "bigint", "string", "boolean", "null", "never", "any", "unknown", "undefined", "void", "object", "symbol"}
PUNCT = ["=>", "...", "{", "}", "[", "]", "(", ")", "<", ">", ",", ";", ":", "?", "|", "&", "=", ".", "*"]


def is_id_start(c):
    return c == "_" or c == "$" or unicodedata.category(c) in ("Lu", "Ll", "Lt", "Lm", "Lo", "Nl")


def is_id_part(c):
    return is_id_start(c) or unicodedata.category(c) in ("Mn", "Mc", "Nd", "Pc") or c in "‌‍"


class Tok:
    __slots__ = ("kind", "text", "value", "pos", "nl_before")

    def __init__(self, kind, text, value, pos, nl_before):
        self.kind, self.text, self.value, self.pos, self.nl_before = kind, text, value, pos, nl_before

    def __repr__(self):
        return "%s(%r)" % (self.kind, self.text)


def lex(src, keep_comments=True):
    """-> list of Tok; kinds: id, str, num, punct, comment (block or line), eof"""
    toks, i, n = [], 0, len(src)
    nl = False
    while i < n:
        c = src[i]
        if c in " \t\r":
            i += 1
            continue
        if c == "\n":
            nl = True
            i += 1
            continue
        if src.startswith("//", i):
            j = src.find("\n", i)
            j = n if j < 0 else j
            if keep_comments:
                toks.append(Tok("comment", src[i:j], src[i:j], i, nl))
            i = j
            nl = False
            continue
        if src.startswith("/*", i):
            j = src.find("*/", i + 2)
            if j < 0:
                raise TsSyntaxError("unterminated block comment at %d" % i)
            if keep_comments:
                toks.append(Tok("comment", src[i:j + 2], src[i:j + 2], i, nl))
            i = j + 2
            nl = False
            continue
        if c in "\"'":
            j, out = i + 1, []
            while True:
                if j >= n or src[j] == "\n":
                    raise TsSyntaxError("unterminated string literal at %d" % i)
                d = src[j]
                if d == c:
                    break
                if d == "\\":
                    if j + 1 >= n:
                        raise TsSyntaxError("unterminated escape at %d" % j)
                    e = src[j + 1]
                    if e == "u":
                        m = re.match(r"u\{([0-9a-fA-F]+)\}|u([0-9a-fA-F]{4})", src[j + 1:])
                        if not m:
                            raise TsSyntaxError("bad unicode escape at %d" % j)
                        out.append(chr(int(m.group(1) or m.group(2), 16)))
                        j += 1 + len(m.group(0))
                        continue
                    if e == "x":
                        m = re.match(r"x([0-9a-fA-F]{2})", src[j + 1:])
                        if not m:
                            raise TsSyntaxError("bad hex escape at %d" % j)
                        out.append(chr(int(m.group(1), 16)))
                        j += 4
                        continue
                    out.append({"n": "\n", "t": "\t", "r": "\r", "b": "\b", "f": "\f", "v": "\v", "0": "\0"}.get(e, e))
                    j += 2
                    continue
                out.append(d)
                j += 1
            toks.append(Tok("str", src[i:j + 1], "".join(out), i, nl))
            i = j + 1
            nl = False
            continue
        if c == "`":
            raise TsSyntaxError("template literal at %d" % i)
        if c in "0123456789":
            m = re.match(r"[0-9]+(\.[0-9]+)?", src[i:])
            toks.append(Tok("num", m.group(0), m.group(0), i, nl))
            i += len(m.group(0))
            if i < n and is_id_part(src[i]):
                raise TsSyntaxError("identifier directly after a numeric literal at %d" % i)
            nl = False
            continue
        if is_id_start(c):
            j = i + 1
            while j < n and is_id_part(src[j]):
                j += 1
            toks.append(Tok("id", src[i:j], src[i:j], i, nl))
            i = j
            nl = False
            continue
        for p in PUNCT:
            if src.startswith(p, i):
                toks.append(Tok("punct", p, p, i, nl))
                i += len(p)
                nl = False
                break
        else:
            raise TsSyntaxError("unexpected character %r at %d" % (c, i))
    toks.append(Tok("eof", "", "", n, nl))
    return toks


class Parser:
    def __init__(self, toks):
        self.toks = [t for t in toks]
        self.i = 0

    # -- token helpers (comments are skipped except where the caller asks for them)
    def _skip_comments(self):
        while self.toks[self.i].kind == "comment":
            self.i += 1

    def peek(self):
        self._skip_comments()
        return self.toks[self.i]

    def next(self):
        self._skip_comments()
        t = self.toks[self.i]
        self.i += 1
        return t

    def at(self, text):
        t = self.peek()
        return t.kind in ("punct", "id") and t.text == text

    def eat(self, text):
        if self.at(text):
            self.i += 1
            return True
        return False

    def expect(self, text):
        t = self.next()
        if t.text != text or t.kind not in ("punct", "id"):
            raise TsSyntaxError("expected %r, found %r at %d" % (text, t.text, t.pos))
        return t

    def take_comments(self):
        """comments immediately before the next real token"""
        out = []
        while self.toks[self.i].kind == "comment":
            out.append(self.toks[self.i])
            self.i += 1
        return out

    # -- types
    def type(self):
        self.eat("|")
        ts = [self.inter()]
        while self.eat("|"):
            ts.append(self.inter())
        return ts[0] if len(ts) == 1 else {"k": "union", "ts": ts}

    def inter(self):
        self.eat("&")
        ts = [self.postfix()]
        while self.eat("&"):
            ts.append(self.postfix())
        return ts[0] if len(ts) == 1 else {"k": "inter", "ts": ts}

    def postfix(self):
        t = self.primary()
        while self.at("[") and self.toks[self.i + 1].text == "]" and not self.toks[self.i].nl_before:
            self.i += 2
            t = {"k": "array", "e": t}
        return t

    def primary(self):
        t = self.next()
        if t.kind == "str":
            return {"k": "lit", "v": t.value}
        if t.kind == "num":
            return {"k": "numlit", "v": t.value}
        if t.kind == "punct" and t.text == "(":
            inner = self.type()
            self.expect(")")
            return inner
        if t.kind == "punct" and t.text == "[":
            es = []
            while not self.at("]"):
                es.append(self.type())
                if not self.eat(","):
                    break
            self.expect("]")
            return {"k": "tuple", "es": es}
        if t.kind == "punct" and t.text == "{":
            return self.object_body()
        if t.kind == "id":
            if t.text in KEYWORD_TYPES:
                return {"k": "kw", "v": t.text}
            if t.text in ("true", "false"):
                return {"k": "boollit", "v": t.text}
            args = []
            if self.at("<"):
                self.i += 1
                while True:
                    args.append(self.type())
                    if not self.eat(","):
                        break
                self.expect(">")
            if t.text == "Array" and len(args) == 1:
                return {"k": "array", "e": args[0]}
            return {"k": "ref", "n": t.text, "as": args}
        raise TsSyntaxError("unexpected token %r at %d" % (t.text, t.pos))

    def object_body(self):
        ms, idx = [], []
        while True:
            comments = self.take_comments()
            if self.at("}"):
                if comments:
                    pass          # a trailing comment inside the braces documents nothing; harmless
                self.i += 1
                break
            if self.at("["):
                self.i += 1
                self.next_kind("id")
                self.expect("in")
                kty = self.type()
                self.expect("]")
                opt = self.eat("?")
                self.expect(":")
                vty = self.type()
                idx.append({"kty": kty, "opt": opt, "vty": vty})
            else:
                k = self.next()
                if k.kind == "id":
                    key, quoted = k.text, False
                elif k.kind == "str":
                    key, quoted = k.value, True
                elif k.kind == "num":
                    key, quoted = k.value, False
                else:
                    raise TsSyntaxError("bad property name %r at %d" % (k.text, k.pos))
                opt = self.eat("?")
                self.expect(":")
                ty = self.type()
                ms.append({"key": key, "opt": opt, "ty": ty, "docs": [c.text for c in comments], "quoted": quoted})
            if not (self.eat(",") or self.eat(";")):
                self.take_comments()
                self.expect("}")
                break
        if idx and (ms or len(idx) > 1):
            # `{ [key in K]: V }` is a mapped type: it has exactly that one member (TS7061)
            raise TsSyntaxError("a mapped type may not declare other members")
        return {"k": "obj", "ms": ms, "idx": idx}

    def next_kind(self, kind):
        t = self.next()
        if t.kind != kind:
            raise TsSyntaxError("expected %s, found %r at %d" % (kind, t.text, t.pos))
        return t

    # -- declarations / modules
    def type_params(self):
        ps = []
        if self.eat("<"):
            while True:
                name = self.next_kind("id").text
                default = None
                if self.eat("="):
                    default = self.type()
                ps.append({"name": name, "default": default})
                if not self.eat(","):
                    break
            self.expect(">")
        return ps

    def decl(self):
        """type Name<Params> = Type ;   (the `export` keyword is handled by the caller)"""
        self.expect("type")
        name = self.next_kind("id").text
        params = self.type_params()
        self.expect("=")
        body = self.type()
        self.expect(";")
        return {"name": name, "params": params, "body": body}


def parse_type(src):
    p = Parser(lex(src))
    t = p.type()
    if p.peek().kind != "eof":
        raise TsSyntaxError("trailing input at %d: %r" % (p.peek().pos, p.peek().text))
    return t


def parse_decl(src):
    """`type X<..> = ..;` as returned by TS::decl()"""
    p = Parser(lex(src))
    d = p.decl()
    if p.peek().kind != "eof":
        raise TsSyntaxError("trailing input at %d: %r" % (p.peek().pos, p.peek().text))
    return d


def parse_module(src):
    """An exported file -> dict(notice, imports:[{names, spec}], decls:[{name, params, body, docs:[comment texts]}], order_ok)"""
    toks = lex(src)
    p = Parser(toks)
    notice = None
    if toks and toks[0].kind == "comment" and toks[0].text.startswith("//") and toks[0].pos == 0:
        notice = toks[0].text
        p.i = 1
    imports, decls = [], []
    seen_decl = False
    order_ok = True
    while True:
        comments = p.take_comments()
        t = p.peek()
        if t.kind == "eof":
            dangling = len(comments)
            break
        if p.at("import"):
            if seen_decl:
                order_ok = False
            p.i += 1
            p.expect("type")
            p.expect("{")
            names = []
            while not p.at("}"):
                names.append(p.next_kind("id").text)
                if not p.eat(","):
                    break
            p.expect("}")
            p.expect("from")
            spec = p.next_kind("str").value
            p.expect(";")
            imports.append({"names": names, "spec": spec, "comments_before": len(comments)})
        elif p.at("export"):
            seen_decl = True
            p.i += 1
            d = p.decl()
            d["docs"] = [c.text for c in comments]
            decls.append(d)
        else:
            raise TsSyntaxError("only `import type` and `export type` are expected at top level, found %r at %d" % (t.text, t.pos))
    return {"notice": notice, "imports": imports, "decls": decls, "order_ok": order_ok, "dangling_comments": dangling}


# ---------------------------------------------------------------------------- to TLA-friendly form

def strip(t):
    """AST without documentation / quoting details, ready for TsTypes.tla"""
    k = t["k"]
    if k in ("kw", "lit"):
        return {"k": k, "v": t["v"]}
    if k in ("numlit", "boollit"):
        return {"k": "lit", "v": "#" + t["v"]}           # not emitted by ts-rs; kept distinguishable
    if k == "array":
        return {"k": "array", "e": strip(t["e"])}
    if k == "tuple":
        return {"k": "tuple", "es": [strip(x) for x in t["es"]]}
    if k in ("union", "inter"):
        return {"k": k, "ts": [strip(x) for x in t["ts"]]}
    if k == "ref":
        return {"k": "ref", "n": t["n"], "as": [strip(x) for x in t["as"]]}
    if k == "obj":
        return {"k": "obj", "ms": [{"key": m["key"], "opt": m["opt"], "ty": strip(m["ty"])} for m in t["ms"]],
                "idx": [{"kty": strip(x["kty"]), "opt": x["opt"], "vty": strip(x["vty"])} for x in t["idx"]]}
    raise ValueError(k)


def json_value(v):
    """a Python JSON value -> tagged form of TsTypes.tla (object entries: [key, value, key-is-numeric])"""
    if v is None:
        return {"k": "null"}
    if isinstance(v, bool):
        return {"k": "bool", "v": v}
    if isinstance(v, int):
        return {"k": "int", "v": v if -2 ** 31 < v < 2 ** 31 else (2 ** 31 - 1 if v > 0 else -(2 ** 31 - 1))}
    if isinstance(v, float):
        return {"k": "float"}
    if isinstance(v, str):
        return {"k": "str", "v": v}
    if isinstance(v, list):
        return {"k": "arr", "v": [json_value(x) for x in v]}
    if isinstance(v, dict):
        return {"k": "obj", "v": [[k, json_value(x), bool(re.fullmatch(r"-?\d+(\.\d+)?", k))] for k, x in v.items()]}
    raise ValueError(type(v))
