"""Configuration of Derive.tla (measured leaf facts) and comparison of its predictions with the real
derive / real serde (conformance of the model of the binding function)."""
import json
import os
import re
import subprocess

import bindlib
import corpus
import tsparse
import vlib
from vlib import ToolError

RULES = ["", "camelCase", "kebab-case", "snake_case", "SCREAMING_SNAKE_CASE"]


def inner_of(rust_ty):
    m = re.fullmatch(r"Option<(.*)>", rust_ty)
    return m.group(1) if m else None


def lname(tok):
    return tok.replace("@", "_at_")


def leaf_units():
    """per type token: Lf_ (the type itself, with its sample values), Li_ (what is inside an Option); for the
    parameter tokens of generic programs the VALUES are those of the instantiation (Lf_ = Option<i32>) and the
    TYPE facts are measured with the placeholder ParamT standing for T (Ls_ = Option<ParamT>)"""
    us = bindlib.helper_units()
    for tok, (ty, vals, dflt, objlike, isopt) in corpus.TYS.items():
        n = lname(tok)
        sym, conc = corpus.PARAM_INST.get(tok, (ty, ty))
        us.append(corpus.Unit("Lf_" + n, "pub type Lf_%s = %s;" % (n, conc), vals, serde=True, deser=False, meta={"tok": tok}))
        if tok in corpus.PARAM_INST:
            us.append(corpus.Unit("Ls_" + n, "pub type Ls_%s = %s;" % (n, sym), [], serde=False, meta={"tok": tok}))
        inn = inner_of(sym)
        if inn:
            us.append(corpus.Unit("Li_" + n, "pub type Li_%s = %s;" % (n, inn), [], serde=False, meta={"tok": tok}))
    return us


def serde_names(rt, names, pos):
    """rule -> list of names, from serde_derive's own conversion"""
    cin, cout = os.path.join(vlib.TMP, "dn.in"), os.path.join(vlib.TMP, "dn.out")
    out = {"": list(names)}
    reqs = [(r, n) for r in RULES[1:] for n in names]
    with open(cin, "w") as f:
        for r, n in reqs:
            f.write("%s\t%s\t%s\n" % (pos, r, n))
    if subprocess.run([rt, "case", cin, cout]).returncode != 0:
        raise ToolError("rt case failed")
    lines = open(cout).read().split("\n")[1:]
    for (r, n), l in zip(reqs, lines):
        out.setdefault(r, []).append(l.split("\t", 1)[1])
    return out


def ast(text):
    return tsparse.strip(tsparse.parse_type(text))


def build_config(path):
    """-> (config dict written to `path`, leaf observations)"""
    c = corpus.Corpus("leafs", leaf_units())
    obs = c.observe()
    if c.rejected:
        raise ToolError("leaf corpus does not compile: %s" % json.dumps(c.rejected)[:800])
    env = bindlib.base_env(obs)
    ty = {}
    for tok, (rty, vals, dflt, objlike, isopt) in corpus.TYS.items():
        n_ = lname(tok)
        info = obs[("Ls_" if tok in corpus.PARAM_INST else "Lf_") + n_]["info"]
        rty = corpus.PARAM_INST.get(tok, (rty, rty))[0]
        name = ast(info["name"]["ok"])
        inl = ast(info["inline"]["ok"]) if "ok" in info["inline"] else name
        flat = ast(info["inline_flattened"]["ok"]) if "ok" in info["inline_flattened"] else {"k": "none"}
        oname, oinl = name, inl
        if inner_of(rty):
            ii = obs["Li_" + n_]["info"]
            oname = ast(ii["name"]["ok"])
            oinl = ast(ii["inline"]["ok"]) if "ok" in ii["inline"] else oname
        samples = obs["Lf_" + n_]["samples"]
        ty[tok] = {"name": name, "inl": inl, "flat": flat, "oname": oname, "oinl": oinl, "isopt": isopt,
                   "vals": [tsparse.json_value(json.loads(s["ok"])) if "ok" in s else {"k": "error"} for s in samples],
                   "none": [v.strip() == "None" for v in vals],
                   # the sample is a unit variant of an (externally tagged) enum: serde writes it as a string, but
                   # as `"Variant": null` when it is flattened into a tagged map
                   "unitvar": [(tok in ("unite", "datae") or tok.endswith("T@unite") and tok.split("@")[0] in ("T", "box_T")) and "::" in v and "(" not in v and "{" not in v for v in vals]}
    vlib.build_harness("rt", extra_env={"CARGO_TARGET_DIR": os.path.join(vlib.BUILD, "target-rt")})
    rt = os.path.join(vlib.BUILD, "target-rt", "release", "rt")
    cfg = {"ty": ty, "env": env,
           "fieldnames": serde_names(rt, corpus.FIELD_NAMES, "field"),
           "variantnames": serde_names(rt, ["Lead"] + corpus.VARIANT_NAMES, "variant")}
    json.dump(cfg, open(path, "w"))
    return cfg, obs


# ---- normal form for comparing a predicted with a real type (denotation-preserving, purely structural)

def norm(t):
    k = t["k"]
    if k == "obj":
        return {"k": "obj", "ms": [{"key": m["key"], "opt": m["opt"], "ty": norm(m["ty"])} for m in t["ms"]],
                "idx": [{"kty": norm(x["kty"]), "opt": x["opt"], "vty": norm(x["vty"])} for x in t["idx"]]}
    if k == "inter":
        parts = []
        for x in t["ts"]:
            n = norm(x)
            if n["k"] == "inter":
                parts += n["ts"]
            else:
                parts.append(n)
        merged = []
        for n in parts:
            if merged and merged[-1]["k"] == "obj" and n["k"] == "obj":
                merged[-1] = {"k": "obj", "ms": merged[-1]["ms"] + n["ms"], "idx": merged[-1]["idx"] + n["idx"]}
            else:
                merged.append(n)
        return merged[0] if len(merged) == 1 else {"k": "inter", "ts": merged}
    if k == "union":
        parts = []
        for x in t["ts"]:
            n = norm(x)
            if n["k"] == "union":
                parts += n["ts"]
            else:
                parts.append(n)
        return parts[0] if len(parts) == 1 else {"k": "union", "ts": parts}
    if k == "array":
        return {"k": "array", "e": norm(t["e"])}
    if k == "tuple":
        return {"k": "tuple", "es": [norm(x) for x in t["es"]]}
    if k == "ref":
        if t["n"] == "Array" and len(t["as"]) == 1:
            return {"k": "array", "e": norm(t["as"][0])}
        return {"k": "ref", "n": t["n"], "as": [norm(x) for x in t["as"]]}
    return t


def rename_self(t, real_name):
    """the model calls the item `Self`; the real item has its own name (also inside its tag literal)"""
    s = json.dumps(t)
    return json.loads(s.replace(json.dumps(real_name), '"Self"'))
