"""Shared by the compiler-half checks (C01, C02, C12, C14, C07, ...): slices of Programs.tla, the
corpus of generated programs, base environment of helper declarations, adjudication through
Trace_Binding.tla."""
import json
import os
import time

import corpus
import tsparse
import vlib
from vlib import ToolError, log

HELPERS = ["Inner", "UnitE", "DataE", "TagE", "Gen<i32>", "Pair<String>", "Deep", "Tree", "OneU"]


def program_slices(tier):
    """-> list of (slice name, config for Programs.tla)"""
    q = tier == "quick"
    sc = corpus.slice_config
    vsh = ["unit", "named0", "tuple0", "newtype", "tuple", "struct1", "struct2"]
    reprs = ["ext", "int", "adj", "unt"]
    sl = []
    sl.append(("E1", sc(["enum"], reprs, [[], ["rename_all"]], [], vsh, [[], ["untagged"], ["skip"], ["rename"]],
                        ["i32", "inner", "opt_i32"] if q else ["i32", "inner", "opt_i32", "string", "unit", "u64"], [[], ["skip"]])))
    sl.append(("E2", sc(["enum"], reprs, [[]], [], ["newtype", "struct1"], [[], ["untagged"]],
                        ["unit", "datae", "tage", "unite", "vec_inner", "map", "tup", "gen_i32", "box_inner", "optopt", "map_i", "arr2", "arr_nested", "deep", "vec_deep", "tree", "opt_tree"],
                        [[], ["inline"]])))
    sl.append(("E3", sc(["enum"], ["ext", "int"] if q else reprs,
                        [["rename_all"], ["rename_all_kebab"], ["rename_all_fields"], ["rename_all", "rename_all_fields"], ["rename_all_upper"]],
                        [], ["unit", "struct2"], [[], ["rename"], ["rename_all_kebab"]], ["i32"], [[], ["rename"]])))
    sl.append(("S1", sc(["struct"], [], [[], ["tag"], ["rename_all"], ["optional_fields"]] if q else
                        [[], ["tag"], ["rename_all"], ["optional_fields"], ["rename"], ["tag", "rename_all"], ["rename_all_kebab"]],
                        ["named"], [], [],
                        ["i32", "u64", "string", "unit", "opt_i32", "opt_inner", "vec_inner", "tup", "map", "map_e", "box_inner", "inner", "unite",
                         "datae", "tage", "gen_inner", "pair", "optopt", "f64", "char", "deep", "vec_deep", "tree", "opt_tree", "oneu", "box_tage", "box_opt_i32"],
                        [[], ["skip"], ["flatten"], ["inline"], ["optional"], ["optional_nullable"], ["optional_ssi"], ["rename"], ["default"]],
                        tys2=("string", "opt_i32") if not q else ("string",))))
    sl.append(("S2", sc(["struct"], [], [[], ["rename"]], ["tuple", "newtype", "unit", "named0", "tuple0"], [], [],
                        ["i32", "string", "opt_i32", "inner", "vec_i32", "datae", "gen_i32", "tup", "unit", "map", "arr_nested"], [[], ["skip"], ["inline"]])))
    # pairs of attributes on one item (the single attributes are exhausted above)
    import itertools
    fpairs = [list(x) for x in itertools.combinations(["inline", "flatten", "optional", "optional_nullable", "optional_ssi", "rename", "default", "skip"], 2)]
    cpairs = [[]] + [list(x) for x in itertools.combinations(["tag", "rename_all_kebab", "optional_fields", "rename"], 2)]
    sl.append(("S3", sc(["struct"], [], cpairs if not q else cpairs[:4], ["named"], [], [], ["opt_inner", "inner", "gen_inner", "opt_i32"] if not q else ["opt_inner", "gen_inner"],
                        fpairs, tys2=("string",))))
    vpairs = [list(x) for x in itertools.combinations(["untagged", "rename", "rename_all", "skip"], 2)]
    sl.append(("E5", sc(["enum"], reprs, [[], ["rename_all", "rename_all_fields"], ["rename_all_kebab", "rename"]], [], ["struct2", "newtype", "unit"], vpairs,
                        ["opt_i32", "inner"] if q else ["opt_i32", "inner", "tage"], [[], ["rename"], ["inline"]], tys2=("string",))))
    # both fields of a tuple / struct variant (and of a tuple struct) skipped or not
    # names with a double quote and a backslash in them, at every place a variant name / field name is written
    sl.append(("E7", sc(["enum"], reprs, [[], ["rename_all"]], [], ["unit", "newtype", "struct1", "tuple"], [["rename_q"]], ["i32", "inner"], [[], ["rename_q"]])))
    sl.append(("S5", sc(["struct"], [], [[], ["tag"], ["rename_all_kebab"]], ["named"], [], [], ["i32", "opt_i32"], [["rename_q"]], tys2=("string",))))
    sl.append(("E6", sc(["enum"], reprs, [[]], [], ["tuple", "struct2", "newtype"], [[], ["untagged"]], ["i32", "inner"], [[], ["skip"]],
                        tys2=("string",), fattrsets2=([], ["skip"]))))
    sl.append(("S4", sc(["struct"], [], [[], ["rename"]], ["tuple", "named"], [], [], ["i32", "inner"], [[], ["skip"]], tys2=("string",), fattrsets2=([], ["skip"]))))
    # two flattened fields (disjoint keys), with and without an own property / a tag next to them; also in struct variants
    sl.append(("S6", sc(["struct"], [], [[], ["tag"]], ["named"], [], [], ["gen_inner", "oneu", "pair", "i32"], [["flatten"], []],
                        tys2=("inner",), fattrsets2=(["flatten"],))))        # (no two types with a key in common)
    sl.append(("E8", sc(["enum"], reprs, [[]], [], ["struct2"], [[]], ["inner", "gen_inner"], [["flatten"]], tys2=("pair",), fattrsets2=(["flatten"],))))
    # generic programs P<T>, instantiated at i32 / Inner / Option<i32> (thorough: also Vec<Inner>, UnitE)
    gargs = ["i32", "inner", "opt_i32"] if q else list(corpus.GEN_ARGS)
    sl.append(("G1", sc(["struct"], [], [[], ["tag"], ["optional_fields"]] if q else [[], ["tag"], ["optional_fields"], ["rename_all"], ["rename"]],
                        ["named", "newtype", "tuple"], [], [], [], [[], ["inline"], ["flatten"], ["optional"], ["optional_nullable"], ["optional_ssi"], ["skip"]],
                        tys2=("string",), gen=corpus.gen_config(gargs, list(corpus.PTOKS)))))
    sl.append(("G2", sc(["enum"], reprs, [[]], [], ["newtype", "struct1", "tuple"] if q else ["newtype", "struct1", "struct2", "tuple"],
                        [[], ["untagged"]], [], [[], ["inline"]] if q else [[], ["inline"], ["flatten"], ["optional"]],
                        tys2=("i32",), gen=corpus.gen_config(gargs if not q else ["i32", "opt_i32"], ["T", "opt_T", "vec_T", "gen_T"] if q else list(corpus.PTOKS)))))
    if not q:
        # two variants with data next to each other (kept small: the programs of a slice multiply per variant)
        sl.append(("E4", sc(["enum"], ["int", "adj", "unt"], [[], ["rename_all_fields"]], [], ["struct2", "newtype", "tuple"], [[], ["untagged"]],
                            ["opt_i32", "tage"], [[], ["inline"]], maxvariants=2, tys2=("string",))))
    return sl


def enumerate_programs(tier, only=None, derive_cfg=None):
    """-> (list of (slice, program[, prediction]), stats).  With derive_cfg (path of the configuration of
    Derive.tla) the enumeration runs MC_Derive.tla and every program comes with the model's prediction."""
    progs = []
    stats = {"states": 0, "transitions": 0, "by_slice": {}}
    for name, cfg in program_slices(tier):
        if only and name not in only:
            continue
        cp = os.path.join(vlib.TMP, "prog-%s.json" % name)
        json.dump(cfg, open(cp, "w"))
        if derive_cfg:
            r = vlib.run_tlc("MC_Derive", "MC_Derive.cfg", workers=12, env={"VERIF_CFG": cp, "VERIF_DERIVE": derive_cfg}, timeout=3000,
                             tags=("PRED",), metatag="md" + name, xmx="8g")
            vlib.tlc_must_succeed(r, "MC_Derive " + name)
            ps = [(x["prog"], x) for x in r.payloads("PRED")]
        else:
            r = vlib.run_tlc("Programs", "Programs.cfg", workers=12, env={"VERIF_CFG": cp}, timeout=1800, metatag="pg" + name)
            vlib.tlc_must_succeed(r, "Programs " + name)
            ps = [(x, None) for x in r.payloads("CASE")]
        stats["states"] += r.distinct
        stats["transitions"] += r.generated
        stats["by_slice"][name] = len(ps)
        for p, pred in ps:
            progs.append((name, p, pred))
        os.remove(cp)
    return progs, stats


def helper_units():
    """units exposing the helper types of the prelude (their decls form the base environment)"""
    us = []
    for n, h in enumerate(HELPERS):
        us.append(corpus.Unit("H%d" % n, "pub type H%d = %s;" % (n, h), [], serde=False, meta={"helper": h}))
    return us


def base_env(obs):
    env = {}
    for n, h in enumerate(HELPERS):
        d = obs["H%d" % n]["info"]["decl"]
        if "ok" not in d:
            raise ToolError("helper type %s has no declaration: %s" % (h, d))
        dd = tsparse.parse_decl(d["ok"])
        env[dd["name"]] = {"params": [p["name"] for p in dd["params"]], "body": tsparse.strip(dd["body"])}
    return env


def decl_record(decl_text):
    d = tsparse.parse_decl(decl_text)
    return {"name": d["name"], "params": [p["name"] for p in d["params"]], "body": tsparse.strip(d["body"])}


def adjudicate(records, env, tag):
    """records: list of Trace_Binding records -> (set of BAD indices (1-based), set of TOOL indices, TlcResult)"""
    tp = os.path.join(vlib.TMP, "bind-%s.ndjson" % tag)
    ep = os.path.join(vlib.TMP, "bind-%s-env.json" % tag)
    vlib.write_ndjson(tp, records)
    json.dump(env, open(ep, "w"))
    a = vlib.run_tlc("Trace_Binding", "Trace_Binding.cfg", workers=12, env={"VERIF_TRACE": tp, "VERIF_ENV": ep}, timeout=3000,
                     tags=("BAD", "TOOL"), metatag="tb" + tag, xmx="8g")
    vlib.tlc_must_succeed(a, "Trace_Binding " + tag)
    if a.distinct != len(records) + 1:
        raise ToolError("adjudication judged %d of %d records" % (a.distinct - 1, len(records)))
    os.remove(tp)
    os.remove(ep)
    return set(a.payloads("BAD")), set(a.payloads("TOOL")), a


def prog_descriptor(prop, slice_name, prog):
    """flat description of a program for known-finding signatures"""
    d = {"prop": prop, "slice": slice_name, "kind": prog["kind"], "cattrs": sorted(prog["cattrs"]), "generic_arg": prog.get("garg", "")}
    if prog["kind"] == "struct":
        d["shape"] = prog["shape"]
        d["field_types"] = [f["ty"] for f in prog["fields"]]
        d["field_attrs"] = sorted({a for f in prog["fields"] for a in f["attrs"]})
    else:
        d["repr"] = prog["repr"]
        d["variant_shapes"] = [v["shape"] for v in prog["variants"]]
        d["variant_attrs"] = sorted({a for v in prog["variants"] for a in v["attrs"]})
        d["field_types"] = [f["ty"] for v in prog["variants"] for f in v["fields"]]
        d["field_attrs"] = sorted({a for v in prog["variants"] for f in v["fields"] for a in f["attrs"]})
    return d
