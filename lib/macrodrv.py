"""Run the in-process expansion driver (harness/macros_driver.rs) inside the macro crate's
unit-test build, from /repo's working tree, with the hooks on."""
import os
import re
import subprocess
import time

import vlib
from vlib import ToolError

DRIVER = os.path.join(vlib.HARNESS, "macros_driver.rs")


def expand(items, features=("serde-compat",), tag="m"):
    """items: list of one-line Rust item sources -> list of (kind, text) with kind in OK/ERR/PANIC/BADITEM"""
    for it in items:
        if "\n" in it:
            raise ToolError("driver items must be single-line: %r" % it[:80])
    inp = os.path.join(vlib.TMP, "drv-%s-%d.in" % (tag, os.getpid()))
    out = os.path.join(vlib.TMP, "drv-%s-%d.out" % (tag, os.getpid()))
    with open(inp, "w") as f:
        for it in items:
            f.write(it + "\n")
    fkey = "-".join(sorted(features)) or "nofeat"
    env = dict(os.environ)
    env.update({"CARGO_NET_OFFLINE": "true",
                "CARGO_TARGET_DIR": os.path.join(vlib.BUILD, "target-macros-" + fkey),
                "RUSTFLAGS": "--cfg ts_rs_verif",
                "TS_RS_VERIF_DRIVER": DRIVER, "TS_RS_VERIF_IN": inp, "TS_RS_VERIF_OUT": out})
    cmd = ["cargo", "test", "--offline", "-q", "-p", "ts-rs-macros", "--lib"]
    if features:
        cmd += ["--features", ",".join(features)]
    cmd += ["--", "verif_drive", "--exact", "verif_driver::verif_drive", "--nocapture"]
    t0 = time.time()
    p = subprocess.run(cmd, cwd=vlib.REPO, env=env, stdout=subprocess.PIPE, stderr=subprocess.PIPE, text=True)
    if p.returncode != 0 or not os.path.exists(out):
        raise ToolError("macro driver failed (rc=%s):\n%s\n%s" % (p.returncode, p.stdout[-2000:], p.stderr[-4000:]))
    res = []
    for line in open(out, encoding="utf-8"):
        line = line.rstrip("\n")
        kind, _, text = line.partition("\t")
        res.append((kind, text))
    os.remove(inp)
    os.remove(out)
    if len(res) != len(items):
        raise ToolError("macro driver returned %d results for %d items" % (len(res), len(items)))
    return res


_LIT = r'"((?:[^"\\]|\\.)*)"'


def rust_unescape(s):
    """the contents of a Rust string literal as printed by proc_macro2"""
    out, i = [], 0
    while i < len(s):
        c = s[i]
        if c != "\\":
            out.append(c)
            i += 1
            continue
        n = s[i + 1]
        if n == "u":
            j = s.index("}", i)
            out.append(chr(int(s[i + 3:j], 16)))
            i = j + 1
        elif n == "x":
            out.append(chr(int(s[i + 2:i + 4], 16)))
            i += 4
        else:
            out.append({"n": "\n", "t": "\t", "r": "\r", "0": "\0", "\\": "\\", '"': '"', "'": "'"}.get(n, n))
            i += 2
    return "".join(out)


FIELD_RE = re.compile(r'format ! \("\{\}\{\}\{\}: \{\}," , ' + _LIT + " , " + _LIT + " ,")
# a unit variant: format!("\"{}\"", <name>) where <name> is the literal itself or an expression around it
# (`::std::string::ToString::to_string(&("name")).replace(..)` since names are escaped at run time)
VARIANT_UNIT_RE = re.compile(r'format ! \("\\"\{\}\\"" , (?::: std :: string :: ToString :: to_string \(& \()?' + _LIT)


def field_names(tokens):
    """property names (as written into the TypeScript object type, quotes removed) in an expansion"""
    out = []
    for m in FIELD_RE.finditer(tokens):
        n = rust_unescape(m.group(2))
        if len(n) >= 2 and n[0] == '"' and n[-1] == '"':
            n = n[1:-1]
        out.append(n)
    return out


# the tag member of an internally tagged struct variant: format!("\"{}\": \"{}\",", "t", <name expression>)
TAG_VALUE_RE = re.compile(r'format ! \("\\"\{\}\\": \\"\{\}\\"," , ' + _LIT + r' , (?::: std :: string :: ToString :: to_string \(& \()?' + _LIT)


# ... or with the tag already inside the literal: format!("\"t\": \"{}\",", <name expression>)
TAG_VALUE_RE2 = re.compile(r'format ! \("\\"(?:[^"\\]|\\.)*\\": \\"\{\}\\"," , (?::: std :: string :: ToString :: to_string \(& \()?' + _LIT)


def tag_values(tokens):
    out = [rust_unescape(m.group(2)) for m in TAG_VALUE_RE.finditer(tokens)]
    return out or [rust_unescape(m.group(1)) for m in TAG_VALUE_RE2.finditer(tokens)]


def unit_variant_names(tokens):
    return [rust_unescape(m.group(1)) for m in VARIANT_UNIT_RE.finditer(tokens)]
