"""Offline setup: parse every specification module with SANY, build the harnesses."""
import glob
import os
import sys

sys.path.insert(0, os.path.join(os.path.dirname(os.path.abspath(__file__)), "..", "lib"))
import vlib

os.makedirs(vlib.BUILD, exist_ok=True)
bad = 0
for f in sorted(glob.glob(os.path.join(vlib.SPEC, "*.tla"))):
    ok, out = vlib.sany(f)
    print("sany %-28s %s" % (os.path.basename(f), "ok" if ok else "FAILED"))
    if not ok:
        print(out[-3000:])
        bad += 1
if bad:
    sys.exit(1)
try:
    t = vlib.build_harness("rt")
    print("built harness rt in %.1fs" % t)
except vlib.ToolError as e:
    print(e)
    sys.exit(1)
print("setup ok")
