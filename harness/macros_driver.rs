// In-process expansion driver. This file is include!()d into the unit-test build of the
// `ts-rs-macros` crate by the hook in macros/src/lib.rs (cfg ts_rs_verif), so it sees the crate's
// private items. It runs the same dispatch as `entry()` on items given as source text, under
// catch_unwind, and reports one line per item:
//   OK <tab> <token stream>      the derive produced an implementation
//   ERR <tab> <message>          the derive returned a syn::Error (would become compile_error!)
//   PANIC <tab> <message>        the derive panicked
//   BADITEM <tab> <message>      the text is not a Rust item (generator bug, not the derive's business)
// Input: file named by TS_RS_VERIF_IN, one item per line. Output: file named by TS_RS_VERIF_OUT.
use std::io::{BufRead, Write};

use super::*;

fn expand_item(src: &str) -> std::result::Result<String, String> {
    let item: Item = match syn::parse_str::<Item>(src) {
        Ok(i) => i,
        Err(e) => return Err(format!("BADITEM\t{}", e.to_string().replace('\n', " "))),
    };
    // the dispatch of `entry()`
    let res: Result<TokenStream> = (|| {
        let (ts, ident, generics) = match item {
            Item::Struct(s) => (types::struct_def(&s)?, s.ident, s.generics),
            Item::Enum(e) => (types::enum_def(&e)?, e.ident, e.generics),
            _ => syn_err!(item.span(); "unsupported item"),
        };
        Ok(ts.into_impl(ident, generics))
    })();
    match res {
        Ok(ts) => Ok(ts.to_string().replace('\n', " ")),
        Err(e) => Err(format!("ERR\t{}", e.to_string().replace('\n', " "))),
    }
}

#[test]
fn verif_drive() {
    let inp = match std::env::var("TS_RS_VERIF_IN") {
        Ok(p) => p,
        Err(_) => return,
    };
    let out = std::env::var("TS_RS_VERIF_OUT").expect("TS_RS_VERIF_OUT");
    std::panic::set_hook(Box::new(|_| {}));
    let rd = std::io::BufReader::new(std::fs::File::open(inp).expect("input"));
    let mut wr = std::io::BufWriter::new(std::fs::File::create(out).expect("output"));
    for line in rd.lines() {
        let line = line.unwrap();
        if line.is_empty() {
            writeln!(wr, "BADITEM\tempty").unwrap();
            continue;
        }
        let src = line.clone();
        let r = std::panic::catch_unwind(move || expand_item(&src));
        match r {
            Ok(Ok(tokens)) => writeln!(wr, "OK\t{}", tokens).unwrap(),
            Ok(Err(msg)) => writeln!(wr, "{}", msg).unwrap(),
            Err(p) => {
                let msg = p
                    .downcast_ref::<String>()
                    .cloned()
                    .or_else(|| p.downcast_ref::<&str>().map(|s| s.to_string()))
                    .unwrap_or_default();
                writeln!(wr, "PANIC\t{}", msg.replace('\n', " ")).unwrap()
            }
        }
    }
    wr.flush().unwrap();
}
