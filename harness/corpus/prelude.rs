// Shared by every generated shard crate (include!d): helper types the generated programs refer
// to, and the generic functions that observe a type through the public API of ts-rs and serde.
#[allow(unused_imports)]
pub use std::collections::{BTreeMap, BTreeSet, HashMap, HashSet};

pub use serde::{Deserialize, Serialize};
pub use ts_rs::TS;

#[derive(TS, Serialize, Deserialize, Debug, Clone, Default, PartialEq)]
pub struct Inner {
    pub x: i32,
    pub y: Option<String>,
}
impl Inner {
    pub fn v1() -> Self {
        Inner { x: 1, y: Some("s".to_string()) }
    }
    pub fn v2() -> Self {
        Inner { x: 0, y: None }
    }
}

#[derive(TS, Serialize, Deserialize, Debug, Clone, Default, PartialEq, Eq, PartialOrd, Ord, Hash)]
pub enum UnitE {
    #[default]
    A,
    B,
}

#[derive(TS, Serialize, Deserialize, Debug, Clone, PartialEq)]
pub enum DataE {
    N(i32),
    S { s: String },
    U,
}

#[derive(TS, Serialize, Deserialize, Debug, Clone, PartialEq)]
#[serde(tag = "k")]
pub enum TagE {
    A { a: i32 },
    B,
}

#[derive(TS, Serialize, Deserialize, Debug, Clone, Default, PartialEq)]
pub struct Gen<T> {
    pub g: T,
    pub o: Option<T>,
}

#[derive(TS, Serialize, Deserialize, Debug, Clone, Default, PartialEq)]
pub struct Pair<A, B = i32> {
    pub a: A,
    pub b: Vec<B>,
}

/// nesting: user types inside containers inside generics inside user types
#[derive(TS, Serialize, Deserialize, Debug, Clone, Default, PartialEq)]
pub struct Deep {
    pub a: Gen<Vec<Inner>>,
    pub m: BTreeMap<String, Gen<Option<UnitE>>>,
    pub p: Option<Box<Pair<Inner, Gen<i32>>>>,
}
impl Deep {
    pub fn v1() -> Self {
        Deep {
            a: Gen { g: vec![Inner::v1(), Inner::v2()], o: Some(vec![]) },
            m: BTreeMap::from([("k".to_string(), Gen { g: Some(UnitE::B), o: Some(None) })]),
            p: Some(Box::new(Pair { a: Inner::v2(), b: vec![Gen { g: 1, o: None }] })),
        }
    }
}

/// an enum whose only variant is untagged and renders as a union
#[derive(TS, Serialize, Deserialize, Debug, Clone, PartialEq)]
#[serde(untagged)]
pub enum OneU {
    Only(#[ts(inline)] TagE),
}

/// a type that refers to itself
#[derive(TS, Serialize, Deserialize, Debug, Clone, Default, PartialEq)]
pub struct Tree {
    pub v: i32,
    pub kids: Vec<Tree>,
    pub parent: Option<Box<Tree>>,
}
impl Tree {
    pub fn v1() -> Self {
        Tree { v: 1, kids: vec![Tree { v: 2, kids: vec![Tree::default()], parent: None }], parent: Some(Box::new(Tree::default())) }
    }
}

/// Stands for a type parameter `T` when the facts about `Option<T>`, `Vec<T>`, `Gen<T>` .. are measured:
/// the same shape as the placeholder type the derive itself generates inside `decl()`.
#[derive(Debug, Clone, Copy, PartialEq, Eq, Hash, PartialOrd, Ord)]
pub struct ParamT;
impl TS for ParamT {
    type WithoutGenerics = ParamT;
    type OptionInnerType = Self;
    fn name() -> String {
        "T".to_owned()
    }
    fn inline() -> String {
        "T".to_owned()
    }
    fn inline_flattened() -> String {
        "T".to_owned()
    }
    fn decl() -> String {
        panic!("T cannot be declared")
    }
    fn decl_concrete() -> String {
        panic!("T cannot be declared")
    }
}

pub struct Entry {
    pub name: &'static str,
    pub info: fn() -> String,
    pub samples: fn() -> Vec<Result<String, String>>,
    pub deser: fn(&str) -> Result<String, String>,
    pub export_all_to: fn(&str) -> Result<(), String>,
}

fn guarded(f: impl FnOnce() -> String + std::panic::UnwindSafe) -> serde_json::Value {
    match std::panic::catch_unwind(f) {
        Ok(s) => serde_json::json!({ "ok": s }),
        Err(p) => {
            let msg = p
                .downcast_ref::<String>()
                .cloned()
                .or_else(|| p.downcast_ref::<&str>().map(|s| s.to_string()))
                .unwrap_or_default();
            serde_json::json!({ "panic": msg })
        }
    }
}

pub fn info<T: TS + 'static + ?Sized>() -> String {
    let deps = match std::panic::catch_unwind(|| {
        T::dependencies()
            .into_iter()
            .map(|d| serde_json::json!([d.ts_name, d.output_path.to_string_lossy()]))
            .collect::<Vec<_>>()
    }) {
        Ok(d) => serde_json::json!({ "ok": d }),
        Err(_) => serde_json::json!({ "panic": "" }),
    };
    serde_json::json!({
        "decl": guarded(|| T::decl()),
        "decl_concrete": guarded(|| T::decl_concrete()),
        "name": guarded(|| T::name()),
        "ident": guarded(|| T::ident()),
        "inline": guarded(|| T::inline()),
        "inline_flattened": guarded(|| T::inline_flattened()),
        "export_to_string": guarded(|| T::export_to_string().unwrap_or_else(|e| format!("ERROR {e}"))),
        "output_path": T::output_path().map(|p| p.to_string_lossy().into_owned()),
        "docs": T::DOCS,
        "deps": deps,
    })
    .to_string()
}

pub fn ser<T: Serialize>(v: &T) -> Result<String, String> {
    match std::panic::catch_unwind(std::panic::AssertUnwindSafe(|| serde_json::to_string(v))) {
        Ok(Ok(s)) => Ok(s),
        Ok(Err(e)) => Err(e.to_string()),
        Err(_) => Err("panic".to_string()),
    }
}

pub fn deser<T: Serialize + for<'de> Deserialize<'de>>(json: &str) -> Result<String, String> {
    match serde_json::from_str::<T>(json) {
        Ok(v) => serde_json::to_string(&v).map_err(|e| format!("reser: {e}")),
        Err(e) => Err(e.to_string()),
    }
}

pub fn export_all_to<T: TS + 'static + ?Sized>(dir: &str) -> Result<(), String> {
    match std::panic::catch_unwind(|| T::export_all_to(dir)) {
        Ok(Ok(())) => Ok(()),
        Ok(Err(e)) => Err(e.to_string()),
        Err(_) => Err("panic".to_string()),
    }
}

pub fn no_deser(_: &str) -> Result<String, String> {
    Err("not deserializable".to_string())
}
