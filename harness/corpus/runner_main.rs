// corpus-run dump <out.ndjson> | deser <in.ndjson> <out.ndjson>
use std::io::{BufRead, Write};

fn main() {
    std::panic::set_hook(Box::new(|_| {}));
    let args: Vec<String> = std::env::args().collect();
    let mut entries = vec![];
    register(&mut entries);
    match args[1].as_str() {
        "dump" => {
            let mut w = std::io::BufWriter::new(std::fs::File::create(&args[2]).unwrap());
            // VERIF_ORDER=reverse: the same calls in the opposite order (what a type returns must not depend on
            // what was asked of other types before)
            if std::env::var("VERIF_ORDER").as_deref() == Ok("reverse") {
                entries.reverse();
            }
            for e in &entries {
                let samples: Vec<serde_json::Value> = (e.samples)()
                    .into_iter()
                    .map(|r| match r {
                        Ok(s) => serde_json::json!({ "ok": s }),
                        Err(m) => serde_json::json!({ "err": m }),
                    })
                    .collect();
                let info: serde_json::Value = serde_json::from_str(&(e.info)()).unwrap();
                writeln!(w, "{}", serde_json::json!({"name": e.name, "info": info, "samples": samples})).unwrap();
            }
        }
        "deser" => {
            let by_name: std::collections::HashMap<&str, &prelude::Entry> = entries.iter().map(|e| (e.name, e)).collect();
            let rd = std::io::BufReader::new(std::fs::File::open(&args[2]).unwrap());
            let mut w = std::io::BufWriter::new(std::fs::File::create(&args[3]).unwrap());
            for line in rd.lines() {
                let line = line.unwrap();
                let v: serde_json::Value = serde_json::from_str(&line).unwrap();
                let e = by_name[v["name"].as_str().unwrap()];
                let r = (e.deser)(v["json"].as_str().unwrap());
                let out = match r {
                    Ok(s) => serde_json::json!({"id": v["id"], "ok": s}),
                    Err(m) => serde_json::json!({"id": v["id"], "err": m}),
                };
                writeln!(w, "{}", out).unwrap();
            }
        }
        "export" => {
            // export <requests.ndjson> <out.ndjson>: {"name", "dir"} -> export_all_to(dir)
            let by_name: std::collections::HashMap<&str, &prelude::Entry> = entries.iter().map(|e| (e.name, e)).collect();
            let rd = std::io::BufReader::new(std::fs::File::open(&args[2]).unwrap());
            let mut w = std::io::BufWriter::new(std::fs::File::create(&args[3]).unwrap());
            for line in rd.lines() {
                let line = line.unwrap();
                let v: serde_json::Value = serde_json::from_str(&line).unwrap();
                let e = by_name[v["name"].as_str().unwrap()];
                if let Some(cwd) = v["cwd"].as_str() {
                    std::env::set_current_dir(cwd).unwrap();
                }
                let r = (e.export_all_to)(v["dir"].as_str().unwrap());
                writeln!(w, "{}", serde_json::json!({"name": v["name"], "result": match r { Ok(()) => "Ok".to_string(), Err(m) => m }})).unwrap();
            }
        }
        _ => panic!("usage"),
    }
}
