//! Run-time driver: replays TLC-generated cases through the real ts-rs code (built from /repo's
//! working tree with `--cfg ts_rs_verif`) and writes observations as ndjson.
mod case;
mod dump;
mod history;
mod paths;
mod threads;
mod universe;

fn main() {
    // a panic of the code under test is data (recorded by catch_unwind), not noise on stderr
    if std::env::var_os("VERIF_SHOW_PANICS").is_none() {
        std::panic::set_hook(Box::new(|_| {}));
    }
    let args: Vec<String> = std::env::args().collect();
    let sub = args.get(1).map(String::as_str).unwrap_or("");
    let rest = &args[2.min(args.len())..];
    let rc = match sub {
        "paths" => paths::main(rest),
        "universe" => dump::main(rest),
        "history" => history::main(rest),
        "threads" => threads::main(rest),
        "case" => case::main(rest),
        _ => {
            eprintln!("usage: rt <paths|...> ...");
            2
        }
    };
    std::process::exit(rc);
}

/// A string as TLC sees it: a JSON array of one-character strings.
pub fn chars(s: &str) -> serde_json::Value {
    serde_json::Value::Array(s.chars().map(|c| serde_json::Value::String(c.to_string())).collect())
}

pub fn unchars(v: &serde_json::Value) -> String {
    v.as_array()
        .map(|a| a.iter().map(|c| c.as_str().unwrap_or("")).collect::<String>())
        .unwrap_or_default()
}
