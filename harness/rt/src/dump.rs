//! `rt universe <out.json>`: measure the constants of the specification from the real types.
use serde_json::{json, Value};

use crate::universe::entries;

pub fn main(args: &[String]) -> i32 {
    std::env::remove_var("TS_RS_EXPORT_DIR");
    let mut types = vec![];
    for e in entries() {
        let out = (e.output_path)();
        let text = match std::panic::catch_unwind(|| (e.export_to_string)()) {
            Ok(Ok(s)) => json!({"ok": s}),
            Ok(Err(err)) => json!({"err": crate::history::err_class(&err)}),
            Err(_) => json!({"panic": true}),
        };
        let visits: Vec<Value> = if out.is_some() {
            (e.visits)().into_iter().map(|(n, x)| json!({"name": n, "exportable": x})).collect()
        } else {
            vec![]
        };
        types.push(json!({
            "name": e.name,
            "ident": if out.is_some() { (e.ident)() } else { None },
            "exportable": out.is_some(),
            "out": out.map(|p| p.to_string_lossy().into_owned()),
            "visits": visits,
            "deps": if (e.output_path)().is_some() { (e.deps)().into_iter().map(|(n, p)| json!([n, p])).collect::<Vec<_>>() } else { vec![] },
            "text": text,
        }));
    }
    let v = json!({"types": types, "note": ts_rs::verif::NOTE, "esm": cfg!(feature = "import-esm")});
    std::fs::write(&args[0], serde_json::to_string_pretty(&v).unwrap()).unwrap();
    0
}
