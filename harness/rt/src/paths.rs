//! `rt paths <cwd> <cases.ndjson> <out.ndjson>`: for every case {base, from, to} call the real
//! `import_path(base.join(from), base.join(to))` exactly like `generate_imports` does.
use std::{
    io::{BufRead, BufReader, BufWriter, Write},
    path::{Path, PathBuf},
};

use serde_json::{json, Value};

use crate::{chars, unchars};

fn comps_to_string(cs: &Value) -> String {
    cs.as_array()
        .unwrap()
        .iter()
        .map(unchars)
        .collect::<Vec<_>>()
        .join("/")
}

fn path_of(p: &Value) -> PathBuf {
    let s = comps_to_string(&p["cs"]);
    if p["abs"].as_bool().unwrap() {
        PathBuf::from(format!("/{s}"))
    } else {
        PathBuf::from(s)
    }
}

pub fn main(args: &[String]) -> i32 {
    let (cwd, cases, out) = (&args[0], &args[1], &args[2]);
    std::env::set_current_dir(cwd).expect("chdir");
    let rd = BufReader::new(std::fs::File::open(cases).expect("cases"));
    let mut wr = BufWriter::new(std::fs::File::create(out).expect("out"));
    for line in rd.lines() {
        let line = line.unwrap();
        if line.trim().is_empty() {
            continue;
        }
        let mut case: Value = serde_json::from_str(&line).expect("json");
        let base = path_of(&case["base"]);
        let from = base.join(Path::new(&comps_to_string(&case["from"])));
        let to = base.join(Path::new(&comps_to_string(&case["to"])));
        let res = std::panic::catch_unwind(|| ts_rs::verif::import_path(&from, &to));
        let real = match res {
            Ok(Ok(s)) => json!({"ok": true, "spec": chars(&s), "panic": false}),
            Ok(Err(e)) => json!({"ok": false, "spec": [], "panic": false, "err": e.to_string()}),
            Err(_) => json!({"ok": false, "spec": [], "panic": true}),
        };
        case["real"] = real;
        case["from_s"] = json!(from.to_string_lossy());
        case["to_s"] = json!(to.to_string_lossy());
        serde_json::to_writer(&mut wr, &case).unwrap();
        wr.write_all(b"\n").unwrap();
    }
    wr.flush().unwrap();
    0
}
