//! `rt case <in> <out>`: the names serde_derive itself computes. Input lines: `pos<TAB>rule<TAB>ident`;
//! output lines: `OK<TAB>name` or `PANIC`.
use std::io::{BufRead, BufReader, BufWriter, Write};

#[allow(dead_code, clippy::all)]
mod serde_case {
    include!(concat!(env!("OUT_DIR"), "/serde_case.rs"));
}

pub fn main(args: &[String]) -> i32 {
    let rd = BufReader::new(std::fs::File::open(&args[0]).expect("in"));
    let mut wr = BufWriter::new(std::fs::File::create(&args[1]).expect("out"));
    writeln!(wr, "VERSION\t{}", env!("VERIF_SERDE_DERIVE_VERSION")).unwrap();
    for line in rd.lines() {
        let line = line.unwrap();
        let mut it = line.splitn(3, '\t');
        let (pos, rule, ident) = (it.next().unwrap(), it.next().unwrap(), it.next().unwrap_or(""));
        let rule = match serde_case::RenameRule::from_str(rule) {
            Ok(r) => r,
            Err(_) => {
                writeln!(wr, "BADRULE").unwrap();
                continue;
            }
        };
        let ident = ident.to_owned();
        let pos = pos.to_owned();
        let r = std::panic::catch_unwind(move || {
            if pos == "field" {
                rule.apply_to_field(&ident)
            } else {
                rule.apply_to_variant(&ident)
            }
        });
        match r {
            Ok(s) => writeln!(wr, "OK\t{s}").unwrap(),
            Err(_) => writeln!(wr, "PANIC").unwrap(),
        }
    }
    wr.flush().unwrap();
    0
}
