//! `rt history <sandbox> <histories.ndjson> <out.ndjson> <blobs.json> <k> <stride>`:
//! replay export histories through the real entry points.  One history = fresh directory
//! `<sandbox>/w<k>` (wiped), cwd `<sandbox>/w<k>/c`, registry reset; after every step the result
//! of the call (Ok / Err class / Panic) and a snapshot of the whole directory are recorded.
use std::{
    collections::BTreeMap,
    hash::{Hash, Hasher},
    io::{BufRead, BufReader, BufWriter, Write},
    path::{Path, PathBuf},
};

use serde_json::{json, Value};
use ts_rs::ExportError;

use crate::universe::find;

pub fn err_class(e: &ExportError) -> String {
    match e {
        ExportError::CannotBeExported(_) => "CannotBeExported".into(),
        ExportError::Io(_) => "Io".into(),
        ExportError::Fmt(_) => "Fmt".into(),
        #[allow(unreachable_patterns)]
        _ => "Other".into(),
    }
}

pub fn blob_id(text: &[u8]) -> String {
    let mut h = std::collections::hash_map::DefaultHasher::new();
    text.hash(&mut h);
    format!("{:016x}", h.finish())
}

pub fn snapshot(root: &Path, blobs: &mut BTreeMap<String, String>) -> Value {
    fn walk(root: &Path, dir: &Path, out: &mut BTreeMap<String, Value>, blobs: &mut BTreeMap<String, String>) {
        let Ok(rd) = std::fs::read_dir(dir) else { return };
        let mut names: Vec<PathBuf> = rd.filter_map(|e| e.ok().map(|e| e.path())).collect();
        names.sort();
        for p in names {
            let rel = p.strip_prefix(root).unwrap().to_string_lossy().into_owned();
            if p.is_dir() {
                out.insert(rel, json!("<dir>"));
                walk(root, &p, out, blobs);
            } else {
                let bytes = std::fs::read(&p).unwrap_or_default();
                let id = blob_id(&bytes);
                blobs.entry(id.clone()).or_insert_with(|| String::from_utf8_lossy(&bytes).into_owned());
                out.insert(rel, json!(id));
            }
        }
    }
    let mut out = BTreeMap::new();
    walk(root, root, &mut out, blobs);
    json!(out)
}

fn wipe(dir: &Path) {
    if dir.exists() {
        // a sandbox may contain a file where a directory is expected and vice versa
        let _ = std::fs::remove_dir_all(dir);
    }
    std::fs::create_dir_all(dir).unwrap();
}

fn subst(s: &str, cwd: &Path) -> String {
    s.replace("{CWD}", &cwd.to_string_lossy())
}

pub fn run_call(step: &Value, cwd: &Path) -> String {
    let ty = step["ty"].as_str().unwrap();
    let entry = step["entry"].as_str().unwrap();
    // concurrent runs must not touch the process environment (setenv races with getenv)
    if step.get("env_skip").and_then(Value::as_bool) != Some(true) {
        match step.get("env").and_then(Value::as_str) {
            Some(v) => std::env::set_var("TS_RS_EXPORT_DIR", subst(v, cwd)),
            None => std::env::remove_var("TS_RS_EXPORT_DIR"),
        }
    }
    // the process may have moved to another working directory (a sibling of the usual one) before this call
    let moved = step.get("cwd").and_then(Value::as_str).map(|sub| cwd.parent().unwrap().join(sub));
    if let Some(d) = &moved {
        std::fs::create_dir_all(d).unwrap();
        std::env::set_current_dir(d).unwrap();
    }
    let e = find(ty);
    let dir = step.get("dir").and_then(Value::as_str).map(|d| subst(d, cwd));
    let res = std::panic::catch_unwind(|| match entry {
        "export" => (e.export)(),
        "export_all" => (e.export_all)(),
        "export_all_to" => (e.export_all_to)(dir.as_deref().unwrap()),
        other => panic!("unknown entry {other}"),
    });
    if moved.is_some() {
        std::env::set_current_dir(cwd).unwrap();
    }
    match res {
        Ok(Ok(())) => "Ok".into(),
        Ok(Err(err)) => format!("Err:{}", err_class(&err)),
        Err(_) => "Panic".into(),
    }
}

pub fn apply_fs_step(step: &Value, root: &Path) -> std::io::Result<()> {
    let p = root.join(step["path"].as_str().unwrap());
    match step["op"].as_str().unwrap() {
        "put" => match step["kind"].as_str().unwrap() {
            "dir" => std::fs::create_dir_all(&p)?,
            "file" => {
                if let Some(parent) = p.parent() {
                    std::fs::create_dir_all(parent)?;
                }
                std::fs::write(&p, step.get("content").and_then(Value::as_str).unwrap_or("OBSTACLE\n"))?;
            }
            k => panic!("unknown obstacle kind {k}"),
        },
        // an existing file is moved aside and a directory put in its place / the reverse
        "swapout" => {
            let aside = root.join(step["aside"].as_str().unwrap());
            std::fs::create_dir_all(aside.parent().unwrap())?;
            std::fs::rename(&p, &aside)?;
            std::fs::create_dir(&p)?;
        }
        "swapin" => {
            let aside = root.join(step["aside"].as_str().unwrap());
            std::fs::remove_dir_all(&p)?;
            std::fs::rename(&aside, &p)?;
        }
        "rm" => {
            if p.is_dir() {
                std::fs::remove_dir_all(&p)?;
            } else {
                std::fs::remove_file(&p)?;
            }
        }
        o => panic!("unknown fs op {o}"),
    }
    Ok(())
}

pub fn main(args: &[String]) -> i32 {
    let sandbox = PathBuf::from(&args[0]);
    let k: usize = args[4].parse().unwrap();
    let stride: usize = args[5].parse().unwrap();
    let root = sandbox.join(format!("w{k}"));
    let cwd = root.join("c");
    // the directory the type `HighExisting` would land in if `/..` were taken for `/`
    let _ = std::fs::create_dir_all("/dev/shm/verif-toohigh");
    let rd = BufReader::new(std::fs::File::open(&args[1]).expect("histories"));
    let mut wr = BufWriter::new(std::fs::File::create(&args[2]).expect("out"));
    let mut blobs: BTreeMap<String, String> = BTreeMap::new();
    for (n, line) in rd.lines().enumerate() {
        let line = line.unwrap();
        if n % stride != k || line.trim().is_empty() {
            continue;
        }
        let h: Value = serde_json::from_str(&line).expect("json");
        wipe(&root);
        std::fs::create_dir_all(&cwd).unwrap();
        std::env::set_current_dir(&cwd).unwrap();
        ts_rs::verif::reset_export_registry();
        if let Some(init) = h.get("init").and_then(Value::as_array) {
            for s in init {
                apply_fs_step(s, &root).expect("initial contents");
            }
        }
        let init_tree = snapshot(&root, &mut blobs);
        let mut steps = vec![];
        for s in h["steps"].as_array().unwrap() {
            let ret = if s["op"] == "call" {
                run_call(s, &cwd)
            } else if s["op"] == "restart" {
                // a new process working on the directory the previous one left behind
                ts_rs::verif::reset_export_registry();
                "Fs".to_string()
            } else {
                match apply_fs_step(s, &root) {
                    Ok(()) => "Fs".to_string(),
                    Err(e) => format!("FsErr:{e}"),
                }
            };
            steps.push(json!({
                "ret": ret,
                "poisoned": ts_rs::verif::registry_poisoned(),
                "tree": snapshot(&root, &mut blobs),
            }));
            if ts_rs::verif::registry_poisoned() {
                ts_rs::verif::reset_export_registry();
            }
        }
        let o = json!({"hid": h["hid"], "init_tree": init_tree, "steps": steps});
        serde_json::to_writer(&mut wr, &o).unwrap();
        wr.write_all(b"\n").unwrap();
    }
    wr.flush().unwrap();
    std::env::set_current_dir("/").unwrap();
    let _ = std::fs::remove_dir_all(&root);
    if k == 0 {
        let _ = std::fs::remove_dir_all("/dev/shm/verif-toohigh");
    }
    std::fs::write(&args[3], serde_json::to_string(&blobs).unwrap()).unwrap();
    0
}
