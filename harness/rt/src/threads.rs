//! `rt threads <sandbox> <runs.ndjson> <out.ndjson> <blobs.json>`: concurrent exports.
//! One run = fresh directory, registry reset, N OS threads each performing its list of calls.
//! The hook callback logs one event per hook point (global sequence, taken while the registry lock
//! is held for the points inside the critical section) and, according to the run's plan, pauses a
//! thread at a point (schedule perturbation; a long pause inside the section is a disabled-action
//! probe: nobody else may enter meanwhile).
use std::{
    cell::Cell,
    collections::BTreeMap,
    io::{BufRead, BufReader, BufWriter, Write},
    path::PathBuf,
    sync::{Arc, Barrier, Mutex},
    time::Duration,
};

use serde_json::{json, Value};

use crate::history::{run_call, snapshot};

thread_local! {
    static TID: Cell<usize> = const { Cell::new(0) };
}

#[derive(Clone)]
struct Pause {
    thread: usize,
    point: String,
    nth: usize,
    ms: u64,
}

struct Log {
    events: Vec<Value>,
    counts: BTreeMap<(usize, String), usize>,
}

pub fn main(args: &[String]) -> i32 {
    let sandbox = PathBuf::from(&args[0]);
    let root = sandbox.join("w0");
    let cwd = root.join("c");
    let rd = BufReader::new(std::fs::File::open(&args[1]).expect("runs"));
    let mut wr = BufWriter::new(std::fs::File::create(&args[2]).expect("out"));
    let mut blobs: BTreeMap<String, String> = BTreeMap::new();
    for line in rd.lines() {
        let line = line.unwrap();
        if line.trim().is_empty() {
            continue;
        }
        let run: Value = serde_json::from_str(&line).expect("json");
        if root.exists() {
            let _ = std::fs::remove_dir_all(&root);
        }
        std::fs::create_dir_all(&cwd).unwrap();
        std::env::set_current_dir(&cwd).unwrap();
        std::env::remove_var("TS_RS_EXPORT_DIR");
        ts_rs::verif::reset_export_registry();
        let pauses: Vec<Pause> = run["pauses"]
            .as_array()
            .map(|a| {
                a.iter()
                    .map(|p| Pause {
                        thread: p["thread"].as_u64().unwrap() as usize,
                        point: p["point"].as_str().unwrap().to_owned(),
                        nth: p["nth"].as_u64().unwrap() as usize,
                        ms: p["ms"].as_u64().unwrap(),
                    })
                    .collect()
            })
            .unwrap_or_default();
        let log = Arc::new(Mutex::new(Log { events: vec![], counts: BTreeMap::new() }));
        {
            let log = log.clone();
            let pauses = pauses.clone();
            ts_rs::verif::set_callback(Some(Arc::new(move |name: &str, _path: &std::path::Path, ty: &str| {
                let tid = TID.with(|t| t.get());
                let nth = {
                    let mut l = log.lock().unwrap_or_else(|e| e.into_inner());
                    let c = l.counts.entry((tid, name.to_owned())).or_insert(0);
                    *c += 1;
                    let nth = *c;
                    l.events.push(json!({"ev": name, "thread": tid, "ident": ty}));
                    nth
                };
                for p in &pauses {
                    if p.thread == tid && p.point == name && p.nth == nth {
                        std::thread::sleep(Duration::from_millis(p.ms));
                    }
                }
            })));
        }
        let plans = run["plans"].as_array().unwrap().clone();
        let barrier = Arc::new(Barrier::new(plans.len()));
        let mut handles = vec![];
        for (i, plan) in plans.into_iter().enumerate() {
            let log = log.clone();
            let barrier = barrier.clone();
            let cwd = cwd.clone();
            handles.push(std::thread::spawn(move || {
                TID.with(|t| t.set(i + 1));
                barrier.wait();
                for (k, call) in plan.as_array().unwrap().iter().enumerate() {
                    log.lock().unwrap_or_else(|e| e.into_inner()).events.push(json!({"ev": "Call", "thread": i + 1, "k": k + 1}));
                    let ret = run_call(call, &cwd);
                    log.lock().unwrap_or_else(|e| e.into_inner()).events.push(json!({"ev": "Return", "thread": i + 1, "k": k + 1, "ret": ret}));
                }
            }));
        }
        for h in handles {
            let _ = h.join();
        }
        ts_rs::verif::set_callback(None);
        let events = std::mem::take(&mut log.lock().unwrap_or_else(|e| e.into_inner()).events);
        let o = json!({
            "rid": run["rid"],
            "events": events,
            "poisoned": ts_rs::verif::registry_poisoned(),
            "tree": snapshot(&root, &mut blobs),
        });
        serde_json::to_writer(&mut wr, &o).unwrap();
        wr.write_all(b"\n").unwrap();
    }
    wr.flush().unwrap();
    std::env::set_current_dir("/").unwrap();
    let _ = std::fs::remove_dir_all(&root);
    std::fs::write(&args[3], serde_json::to_string(&blobs).unwrap()).unwrap();
    0
}
