//! `rt threads <sandbox> <runs.ndjson> <out.ndjson> <blobs.json>`: concurrent exports.
//! One run = fresh directory, registry reset, N OS threads each performing its list of calls.
//! The hook callback logs one event per hook point (global sequence, taken while the registry lock
//! is held for the points inside the critical section) and, according to the run's plan, pauses a
//! thread at a point (schedule perturbation; a long pause inside the section is a disabled-action
//! probe: nobody else may enter meanwhile).  With an `order` (thread ids), the run follows one exact schedule:
//! the k-th critical section of the run is entered by thread order[k] - a thread waits at `Lock_wait`
//! until it is its turn, and the turn passes on at `Unlock`.
use std::{
    cell::Cell,
    collections::BTreeMap,
    io::{BufRead, BufReader, BufWriter, Write},
    path::PathBuf,
    sync::{Arc, Barrier, Condvar, Mutex},
    time::Duration,
};

use serde_json::{json, Value};

use crate::history::{run_call, snapshot};

thread_local! {
    static TID: Cell<usize> = const { Cell::new(0) };
}

#[derive(Clone)]
struct Pause {
    thread: usize,
    point: String,
    nth: usize,
    ms: u64,
}

struct Log {
    events: Vec<Value>,
    counts: BTreeMap<(usize, String), usize>,
}

pub fn main(args: &[String]) -> i32 {
    let sandbox = PathBuf::from(&args[0]);
    let root = sandbox.join("w0");
    let cwd = root.join("c");
    let rd = BufReader::new(std::fs::File::open(&args[1]).expect("runs"));
    let mut wr = BufWriter::new(std::fs::File::create(&args[2]).expect("out"));
    let mut blobs: BTreeMap<String, String> = BTreeMap::new();
    for line in rd.lines() {
        let line = line.unwrap();
        if line.trim().is_empty() {
            continue;
        }
        let run: Value = serde_json::from_str(&line).expect("json");
        if root.exists() {
            let _ = std::fs::remove_dir_all(&root);
        }
        std::fs::create_dir_all(&cwd).unwrap();
        std::env::set_current_dir(&cwd).unwrap();
        std::env::remove_var("TS_RS_EXPORT_DIR");
        ts_rs::verif::reset_export_registry();
        let pauses: Vec<Pause> = run["pauses"]
            .as_array()
            .map(|a| {
                a.iter()
                    .map(|p| Pause {
                        thread: p["thread"].as_u64().unwrap() as usize,
                        point: p["point"].as_str().unwrap().to_owned(),
                        nth: p["nth"].as_u64().unwrap() as usize,
                        ms: p["ms"].as_u64().unwrap(),
                    })
                    .collect()
            })
            .unwrap_or_default();
        let order: Vec<usize> = run["order"].as_array().map(|a| a.iter().map(|x| x.as_u64().unwrap() as usize).collect()).unwrap_or_default();
        // (turn, stuck): index of the next section in `order`; set when a thread gave up waiting for its turn
        let sched = Arc::new((Mutex::new((0usize, false)), Condvar::new()));
        let log = Arc::new(Mutex::new(Log { events: vec![], counts: BTreeMap::new() }));
        {
            let log = log.clone();
            let pauses = pauses.clone();
            let order = order.clone();
            let sched = sched.clone();
            ts_rs::verif::set_callback(Some(Arc::new(move |name: &str, _path: &std::path::Path, ty: &str| {
                let tid = TID.with(|t| t.get());
                if !order.is_empty() {
                    let (m, cv) = &*sched;
                    if name == "Lock_wait" {
                        let mut g = m.lock().unwrap_or_else(|e| e.into_inner());
                        let deadline = std::time::Instant::now() + Duration::from_secs(5);
                        while g.0 < order.len() && order[g.0] != tid && !g.1 {
                            let left = deadline.saturating_duration_since(std::time::Instant::now());
                            if left.is_zero() {
                                g.1 = true; // the code takes other sections than the schedule says: give up, run freely
                                cv.notify_all();
                                break;
                            }
                            g = cv.wait_timeout(g, left).unwrap_or_else(|e| e.into_inner()).0;
                        }
                    } else if name == "Unlock" {
                        let mut g = m.lock().unwrap_or_else(|e| e.into_inner());
                        g.0 += 1;
                        cv.notify_all();
                    }
                }
                let nth = {
                    let mut l = log.lock().unwrap_or_else(|e| e.into_inner());
                    let c = l.counts.entry((tid, name.to_owned())).or_insert(0);
                    *c += 1;
                    let nth = *c;
                    l.events.push(json!({"ev": name, "thread": tid, "ident": ty}));
                    nth
                };
                for p in &pauses {
                    if p.thread == tid && p.point == name && p.nth == nth {
                        std::thread::sleep(Duration::from_millis(p.ms));
                    }
                }
            })));
        }
        let plans = run["plans"].as_array().unwrap().clone();
        let barrier = Arc::new(Barrier::new(plans.len()));
        let mut handles = vec![];
        for (i, plan) in plans.into_iter().enumerate() {
            let log = log.clone();
            let barrier = barrier.clone();
            let cwd = cwd.clone();
            handles.push(std::thread::spawn(move || {
                TID.with(|t| t.set(i + 1));
                barrier.wait();
                for (k, call) in plan.as_array().unwrap().iter().enumerate() {
                    log.lock().unwrap_or_else(|e| e.into_inner()).events.push(json!({"ev": "Call", "thread": i + 1, "k": k + 1}));
                    let ret = run_call(call, &cwd);
                    log.lock().unwrap_or_else(|e| e.into_inner()).events.push(json!({"ev": "Return", "thread": i + 1, "k": k + 1, "ret": ret}));
                }
            }));
        }
        for h in handles {
            let _ = h.join();
        }
        ts_rs::verif::set_callback(None);
        let events = std::mem::take(&mut log.lock().unwrap_or_else(|e| e.into_inner()).events);
        let o = json!({
            "rid": run["rid"],
            "events": events,
            "poisoned": ts_rs::verif::registry_poisoned(),
            "stuck": sched.0.lock().unwrap_or_else(|e| e.into_inner()).1,
            "tree": snapshot(&root, &mut blobs),
        });
        serde_json::to_writer(&mut wr, &o).unwrap();
        wr.write_all(b"\n").unwrap();
    }
    wr.flush().unwrap();
    std::env::set_current_dir("/").unwrap();
    let _ = std::fs::remove_dir_all(&root);
    std::fs::write(&args[3], serde_json::to_string(&blobs).unwrap()).unwrap();
    0
}
