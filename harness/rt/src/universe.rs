//! The fixed universe of types the exporter checks talk about.  Everything the specification
//! needs to know about it (identifiers, output paths, visit lists, rendered text) is *measured*
//! from these real types by `rt universe`, never written down by hand.
#![allow(dead_code)]
use std::path::PathBuf;

use ts_rs::{ExportError, TypeVisitor, TS};

// ---- several types in one file (clean declarations) -------------------------------------------
#[derive(TS)]
#[ts(export_to = "shared.ts")]
pub struct Alpha {
    a: i32,
}

#[derive(TS)]
#[ts(export_to = "shared.ts")]
pub struct Al1 {
    leaf: Leaf,
}

/// sorts after `Al` by identifier but before `Al<T>` by declaration text; needs no imports
#[derive(TS)]
#[ts(export_to = "shared.ts")]
pub struct Al2 {
    a: i32,
}

#[derive(TS)]
#[ts(export_to = "shared.ts")]
pub struct Al<T> {
    v: T,
    o: Other,
}

/// Doc line one — naïve café, 日本語
/// second line, `code`
#[derive(TS)]
#[ts(export_to = "shared.ts")]
pub struct AlphaBeta {
    leaf: Leaf,
    other: Other,
    al: Alpha,
}

#[derive(TS)]
#[ts(export_to = "shared.ts")]
pub enum Beta {
    X,
    Y {
        /// field doc
        f: i32,
        /// second field doc
        ///
        /// with a blank doc line
        g: Option<Leaf>,
    },
}

#[derive(TS)]
#[ts(export_to = "shared.ts")]
#[allow(non_camel_case_types)]
pub struct alpha2 {
    z: Vec<Alpha>,
}

// ---- several types in one file (declarations whose text stresses the merge) -------------------
/** Block doc

with an empty line */
#[derive(TS)]
#[ts(export_to = "shared.ts")]
pub struct Gamma {
    g: i32,
}

#[derive(TS)]
#[ts(export_to = "shared.ts")]
pub struct Delta {
    /// the words export type Aaa appear in this field doc
    d: i32,
}

/** Two empty lines


in a block doc */
#[derive(TS)]
#[ts(export_to = "shared.ts")]
pub struct Zeta {
    z: i32,
}

/** Block doc followed by a line doc

(an empty line above, two doc attributes in all) */
/// the line doc
#[derive(TS)]
#[ts(export_to = "shared.ts")]
pub struct Eta {
    /** field block doc

    with an empty line */
    /// and a line
    e: i32,
}

/// names that agree up to an underscore / a dollar sign
#[derive(TS)]
#[ts(export_to = "shared.ts")]
#[allow(non_camel_case_types)]
pub struct Al_a {
    a: i32,
}

#[derive(TS)]
#[ts(export_to = "shared.ts")]
#[allow(non_camel_case_types)]
pub struct Al_b {
    b: Leaf,
}

#[derive(TS)]
#[ts(export_to = "shared.ts", rename = "Al$c")]
pub struct AlDollar {
    c: i32,
}

/// the same shared file, spelled differently in the attribute
#[derive(TS)]
#[ts(export_to = "sub/../shared.ts")]
pub struct AlD {
    d: i32,
}

// ---- two types of one shared file importing different names from one and the same other shared file
#[derive(TS)]
#[ts(export_to = "sub/leaves.ts")]
pub struct LeafA {
    a: i32,
}

#[derive(TS)]
#[ts(export_to = "sub/leaves.ts")]
pub struct LeafB {
    b: i32,
}

#[derive(TS)]
#[ts(export_to = "sub/leaves.ts")]
pub struct LeafC {
    c: Option<Box<LeafA>>,
}

/// two files whose names differ only in the case of a letter (two files on a case-sensitive file system), one of them
/// below a directory that has such a twin as well
#[derive(TS)]
#[ts(export_to = "twins/Twin.ts")]
pub struct TwinUp {
    l: Leaf,
}

#[derive(TS)]
#[ts(export_to = "twins/twin.ts")]
pub struct TwinLow {
    a: Alpha,
}

#[derive(TS)]
#[ts(export_to = "Twins/twin.ts")]
pub struct TwinDir {
    t: i32,
}

/// three types in one file whose name does not end in `.ts` (the file form is taken verbatim); one depends on another
#[derive(TS)]
#[ts(export_to = "models.mts")]
pub struct MtsA {
    b: MtsB,
    l: Leaf,
}

#[derive(TS)]
#[ts(export_to = "models.mts")]
pub struct MtsB {
    l: Option<Leaf>,
}

#[derive(TS)]
#[ts(export_to = "models.mts")]
pub struct MtsC {
    a: Alpha,
    b: Vec<MtsB>,
}

#[derive(TS)]
#[ts(export_to = "shared.ts")]
pub struct AlA {
    a: LeafA,
}

#[derive(TS)]
#[ts(export_to = "shared.ts")]
pub struct AlB {
    b: LeafB,
    c: Vec<LeafC>,
}

#[derive(TS)]
#[ts(export_to = "shared.ts")]
pub struct AlC {
    a: LeafA,
    b: LeafB,
    leaf: Leaf,
}

// ---- one type per file, in sub directories, depending on each other ---------------------------
#[derive(TS)]
#[ts(export_to = "sub/")]
pub struct Leaf {
    x: i32,
}

#[derive(TS)]
#[ts(export_to = "sub/deep/Other.ts")]
pub struct Other {
    leaf: Leaf,
}

#[derive(TS)]
pub struct Root {
    mid: Mid,
    leaves: Vec<Leaf>,
    shared: Alpha,
}

/// several dependencies living in one shared file, one of which has a dependency of its own
#[derive(TS)]
pub struct Pair {
    a: Alpha,
    b: Al1,
    c: Beta,
}

#[derive(TS)]
pub struct Mid {
    other: Other,
    back: Option<Box<Root>>,
}

#[derive(TS)]
#[ts(export_to = "../esc/Esc.ts")]
pub struct Esc {
    leaf: Leaf,
}

#[derive(TS)]
pub struct Wrap<T> {
    inner: T,
}

/// climbs above the filesystem root for any sandbox
#[derive(TS)]
#[ts(export_to = "../../../../../../../../../../../../../../../../up/TooHigh.ts")]
pub struct TooHigh {
    t: i32,
}

#[derive(TS)]
pub struct UsesHigh {
    h: TooHigh,
    a: Alpha,
}

/// climbs above the filesystem root and comes down again into a directory that EXISTS (the history runner creates
/// it): still a location above the root, i.e. an error - whatever the operating system would make of `/..`
#[derive(TS)]
#[ts(export_to = "../../../../../../../../../../../../../../../../dev/shm/verif-toohigh/HighExisting.ts")]
pub struct HighExisting {
    t: i32,
}

/// reaches the type that climbs too high only through another type
#[derive(TS)]
pub struct ViaHigh {
    u: UsesHigh,
    l: Leaf,
}

// ------------------------------------------------------------------------------------------------

pub struct Entry {
    pub name: &'static str,
    pub ident: fn() -> Option<String>,
    pub output_path: fn() -> Option<PathBuf>,
    pub export: fn() -> Result<(), ExportError>,
    pub export_all: fn() -> Result<(), ExportError>,
    pub export_all_to: fn(&str) -> Result<(), ExportError>,
    pub export_to_string: fn() -> Result<String, ExportError>,
    pub visits: fn() -> Vec<(String, bool)>,
    pub deps: fn() -> Vec<(String, String)>,
    pub default_output_path: fn() -> Option<PathBuf>,
}

struct Rec(Vec<(String, bool)>);
impl TypeVisitor for Rec {
    fn visit<T: TS + 'static + ?Sized>(&mut self) {
        self.0.push((short(std::any::type_name::<T>()), T::output_path().is_some()));
    }
}

pub fn short(s: &str) -> String {
    s.replace("rt::universe::", "").replace("alloc::vec::", "").replace("alloc::string::", "")
}

fn visits<T: TS + 'static + ?Sized>() -> Vec<(String, bool)> {
    let mut r = Rec(vec![]);
    T::visit_dependencies(&mut r);
    r.0
}

fn deps<T: TS + 'static + ?Sized>() -> Vec<(String, String)> {
    T::dependencies()
        .into_iter()
        .map(|d| (d.ts_name, d.output_path.to_string_lossy().into_owned()))
        .collect()
}

fn ident<T: TS + 'static + ?Sized>() -> Option<String> {
    std::panic::catch_unwind(|| T::ident()).ok()
}

macro_rules! entry {
    ($name:literal, $t:ty) => {
        Entry {
            name: $name,
            ident: ident::<$t>,
            output_path: <$t as TS>::output_path,
            export: <$t as TS>::export,
            export_all: <$t as TS>::export_all,
            export_all_to: |d: &str| <$t as TS>::export_all_to(d),
            export_to_string: <$t as TS>::export_to_string,
            visits: visits::<$t>,
            deps: deps::<$t>,
            default_output_path: <$t as TS>::default_output_path,
        }
    };
}

pub fn entries() -> Vec<Entry> {
    vec![
        entry!("Alpha", Alpha),
        entry!("Al1", Al1),
        entry!("Al2", Al2),
        entry!("Al<i32>", Al<i32>),
        entry!("Al<Leaf>", Al<Leaf>),
        entry!("AlphaBeta", AlphaBeta),
        entry!("Beta", Beta),
        entry!("alpha2", alpha2),
        entry!("Gamma", Gamma),
        entry!("LeafA", LeafA),
        entry!("LeafB", LeafB),
        entry!("LeafC", LeafC),
        entry!("Al_a", Al_a),
        entry!("Al_b", Al_b),
        entry!("AlDollar", AlDollar),
        entry!("AlD", AlD),
        entry!("AlA", AlA),
        entry!("AlB", AlB),
        entry!("AlC", AlC),
        entry!("Eta", Eta),
        entry!("Delta", Delta),
        entry!("Zeta", Zeta),
        entry!("Leaf", Leaf),
        entry!("Other", Other),
        entry!("Root", Root),
        entry!("Mid", Mid),
        entry!("Pair", Pair),
        entry!("Esc", Esc),
        entry!("Wrap<Leaf>", Wrap<Leaf>),
        entry!("Wrap<Alpha>", Wrap<Alpha>),
        entry!("TooHigh", TooHigh),
        entry!("TwinUp", TwinUp),
        entry!("TwinLow", TwinLow),
        entry!("TwinDir", TwinDir),
        entry!("MtsA", MtsA),
        entry!("MtsB", MtsB),
        entry!("MtsC", MtsC),
        entry!("UsesHigh", UsesHigh),
        entry!("ViaHigh", ViaHigh),
        entry!("HighExisting", HighExisting),
        entry!("i32", i32),
        entry!("Vec<Alpha>", Vec<Alpha>),
    ]
}

pub fn find(name: &str) -> Entry {
    entries()
        .into_iter()
        .find(|e| e.name == name)
        .unwrap_or_else(|| panic!("unknown universe type {name}"))
}
