// Copies serde_derive's own case-conversion module (the version pinned by /repo/Cargo.lock) from
// the offline cargo registry into OUT_DIR, so that `rt case` can call the REAL serde routine.
use std::{env, fs, path::PathBuf};

fn main() {
    // (VERIF_REPO: another location of the repository, for background runs on a snapshot)
    let repo = env::var("VERIF_REPO").unwrap_or_else(|_| "/repo".to_owned());
    println!("cargo:rerun-if-env-changed=VERIF_REPO");
    let lock = fs::read_to_string(format!("{repo}/Cargo.lock")).expect("Cargo.lock of the repository");
    let mut version = None;
    let mut lines = lock.lines();
    while let Some(l) = lines.next() {
        if l.trim() == "name = \"serde_derive\"" {
            if let Some(v) = lines.next() {
                version = v.trim().strip_prefix("version = \"").and_then(|v| v.strip_suffix('"')).map(str::to_owned);
            }
        }
    }
    let version = version.expect("serde_derive in Cargo.lock");
    let home = env::var("CARGO_HOME").unwrap_or_else(|_| format!("{}/.cargo", env::var("HOME").unwrap()));
    let mut found = None;
    for e in fs::read_dir(format!("{home}/registry/src")).expect("registry").flatten() {
        let p = e.path().join(format!("serde_derive-{version}/src/internals/case.rs"));
        if p.exists() {
            found = Some(p);
        }
    }
    let src = found.expect("serde_derive source in the offline registry");
    let out = PathBuf::from(env::var("OUT_DIR").unwrap()).join("serde_case.rs");
    // inner doc comments (//!) are not allowed in an include!d file that is not at the top of a module
    let text = fs::read_to_string(&src).unwrap().lines().filter(|l| !l.starts_with("//!")).collect::<Vec<_>>().join("\n");
    fs::write(out, text).unwrap();
    println!("cargo:rerun-if-changed={repo}/Cargo.lock");
    println!("cargo:rustc-env=VERIF_SERDE_DERIVE_VERSION={version}");
}
